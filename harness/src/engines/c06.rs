//! C06 — the bundled parsers accept the same language and build the same tree.
//!
//! Runs the three REAL parsers in-process on generated sources:
//!   * `jrsonnet_ir_parser::parse`   (default evaluator parser, Pratt loop)
//!   * `jrsonnet_peg_parser::parse`  (legacy PEG grammar)
//!   * `jrsonnet_rowan_parser::parse` (formatter's syntax-tree parser; only "no error reported")
//! ASTs are serialised by a structural walker with every span erased.
//!
//! Operations written for the Lean driver:
//!   * `c06.agree`    {src, ir, peg, rowan[, base]} -> driver evaluates the executable statement
//!                    "ir == peg, rowan error-free iff ir accepts[, ir == base]" (observation)
//!   * `c06.pratt`    {via: ir|peg, toks}  -> impl {ast}; driver answers model (Pratt loop over the
//!                    EXTRACTED binding-power table of that parser) and spec (Jsonnet grammar table)
//!   * `c06.unescape` {s: code points}     -> impl {out}; driver answers model (unescape.rs mirror
//!                    with extracted shifts/escape letters) and spec (Jsonnet escape definition)
use std::collections::BTreeMap;

use jrsonnet_ir::{
	ArgsDesc, AssertStmt, BindSpec, CompSpec, Destruct, Expr, ExprParams, FieldMember, FieldName,
	ObjBody, Source, Spanned,
};
use jrsonnet_lexer::{Lexer, SyntaxKind};
use serde_json::{json, Value};

use crate::common::{guarded, CaseWriter, Opts, Rng};

// ------------------------------------------------------------------------------------------
// span-erasing structural serialiser
// ------------------------------------------------------------------------------------------
fn sx_destruct(d: &Destruct, o: &mut String) {
	#[allow(unreachable_patterns)]
	match d {
		Destruct::Full(n) => o.push_str(n),
		other => o.push_str(&format!("<destruct {other:?}>")),
	}
}
fn sx_params(p: &ExprParams, o: &mut String) {
	o.push_str("(params");
	for p in p.exprs.iter() {
		o.push_str(" (");
		sx_destruct(&p.destruct, o);
		if let Some(d) = &p.default {
			o.push(' ');
			sx(d, o);
		}
		o.push(')');
	}
	o.push(')');
}
fn sx_args(a: &ArgsDesc, o: &mut String) {
	o.push_str("(args");
	for e in &a.unnamed {
		o.push(' ');
		sx(e, o);
	}
	for (n, e) in &a.named {
		o.push_str(&format!(" ({n}= "));
		sx(e, o);
		o.push(')');
	}
	o.push(')');
}
fn sx_bind(b: &BindSpec, o: &mut String) {
	match b {
		BindSpec::Field { into, value } => {
			o.push_str("(bind ");
			sx_destruct(into, o);
			o.push(' ');
			sx(value, o);
			o.push(')');
		}
		BindSpec::Function {
			name,
			params,
			value,
		} => {
			o.push_str(&format!("(bindfn {name} "));
			sx_params(params, o);
			o.push(' ');
			sx(value, o);
			o.push(')');
		}
	}
}
fn sx_assert(a: &AssertStmt, o: &mut String) {
	o.push_str("(assert ");
	sx(&a.0, o);
	if let Some(m) = &a.1 {
		o.push(' ');
		sx(m, o);
	}
	o.push(')');
}
fn sx_field(f: &FieldMember, o: &mut String) {
	o.push_str("(field ");
	match &f.name.value {
		FieldName::Fixed(n) => o.push_str(&format!("{:?}", n.as_str())),
		FieldName::Dyn(e) => {
			o.push_str("[");
			sx(e, o);
			o.push(']');
		}
	}
	if f.plus {
		o.push_str(" +");
	}
	o.push_str(&format!(" {:?} ", f.visibility));
	if let Some(p) = &f.params {
		sx_params(p, o);
		o.push(' ');
	}
	sx(&f.value, o);
	o.push(')');
}
fn sx_specs(specs: &[CompSpec], o: &mut String) {
	for s in specs {
		match s {
			CompSpec::IfSpec(i) => {
				o.push_str(" (ifspec ");
				sx(&i.cond, o);
				o.push(')');
			}
			CompSpec::ForSpec(f) => {
				o.push_str(" (forspec ");
				sx_destruct(&f.destruct, o);
				o.push(' ');
				sx(&f.over, o);
				o.push(')');
			}
		}
	}
}
fn sx_body(b: &ObjBody, o: &mut String) {
	match b {
		ObjBody::MemberList(m) => {
			o.push_str("(members");
			for l in m.locals.iter() {
				o.push(' ');
				sx_bind(l, o);
			}
			for a in m.asserts.iter() {
				o.push(' ');
				sx_assert(a, o);
			}
			for f in &m.fields {
				o.push(' ');
				sx_field(f, o);
			}
			o.push(')');
		}
		ObjBody::ObjComp(c) => {
			o.push_str("(objcomp");
			for l in c.locals.iter() {
				o.push(' ');
				sx_bind(l, o);
			}
			o.push(' ');
			sx_field(&c.field, o);
			sx_specs(&c.compspecs, o);
			o.push(')');
		}
	}
}
fn sx_opt(e: &Option<Spanned<Expr>>, o: &mut String) {
	match e {
		Some(e) => sx(e, o),
		None => o.push('_'),
	}
}
fn sx(e: &Expr, o: &mut String) {
	match e {
		Expr::Literal(l) => o.push_str(&format!("@{l:?}")),
		Expr::Str(s) => o.push_str(&format!("{:?}", s.as_str())),
		Expr::Num(n) => o.push_str(&format!("{n}")),
		Expr::Var(v) => o.push_str(&v.value),
		Expr::Arr(a) => {
			o.push('[');
			for (i, e) in a.iter().enumerate() {
				if i > 0 {
					o.push(' ');
				}
				sx(e, o);
			}
			o.push(']');
		}
		Expr::ArrComp(e, specs) => {
			o.push_str("(arrcomp ");
			sx(e, o);
			sx_specs(specs, o);
			o.push(')');
		}
		Expr::Obj(b) => {
			o.push_str("(obj ");
			sx_body(b, o);
			o.push(')');
		}
		Expr::ObjExtend(e, b) => {
			o.push_str("(objext ");
			sx(e, o);
			o.push(' ');
			sx_body(b, o);
			o.push(')');
		}
		Expr::UnaryOp(op, e) => {
			o.push_str(&format!("({op:?} "));
			sx(e, o);
			o.push(')');
		}
		Expr::BinaryOp(b) => {
			o.push_str(&format!("({:?} ", b.op));
			sx(&b.lhs, o);
			o.push(' ');
			sx(&b.rhs, o);
			o.push(')');
		}
		Expr::AssertExpr(a) => {
			o.push_str("(assertexpr ");
			sx_assert(&a.assert, o);
			o.push(' ');
			sx(&a.rest, o);
			o.push(')');
		}
		Expr::LocalExpr(binds, body) => {
			o.push_str("(local (");
			for (i, b) in binds.iter().enumerate() {
				if i > 0 {
					o.push(' ');
				}
				sx_bind(b, o);
			}
			o.push_str(") ");
			sx(body, o);
			o.push(')');
		}
		Expr::Import(k, e) => {
			o.push_str(&format!("(import {:?} ", k.value));
			sx(e, o);
			o.push(')');
		}
		Expr::ErrorStmt(_, e) => {
			o.push_str("(error ");
			sx(e, o);
			o.push(')');
		}
		Expr::Apply(f, args, ts) => {
			o.push_str("(apply ");
			sx(f, o);
			o.push(' ');
			sx_args(&args.value, o);
			if *ts {
				o.push_str(" tailstrict");
			}
			o.push(')');
		}
		Expr::Index { indexable, parts } => {
			o.push_str("(index ");
			sx(indexable, o);
			for p in parts {
				o.push(' ');
				sx(&p.value, o);
			}
			o.push(')');
		}
		Expr::Function(p, body) => {
			o.push_str("(fn ");
			sx_params(p, o);
			o.push(' ');
			sx(body, o);
			o.push(')');
		}
		Expr::IfElse(i) => {
			o.push_str("(if ");
			sx(&i.cond.cond, o);
			o.push(' ');
			sx(&i.cond_then, o);
			if let Some(e) = &i.cond_else {
				o.push(' ');
				sx(e, o);
			}
			o.push(')');
		}
		Expr::Slice(s) => {
			o.push_str("(slice ");
			sx(&s.value, o);
			o.push(' ');
			sx_opt(&s.slice.start, o);
			o.push(' ');
			sx_opt(&s.slice.end, o);
			o.push(' ');
			sx_opt(&s.slice.step, o);
			o.push(')');
		}
	}
}

const REJECT: &str = "reject";

fn source(src: &str) -> Source {
	Source::new_virtual("<c06>".into(), src.into())
}

thread_local! {
	static LAST_IR_MSG: std::cell::RefCell<String> = const { std::cell::RefCell::new(String::new()) };
}

/// (outcome, error offset if rejected)
fn run_ir(src: &str) -> (String, Option<usize>) {
	LAST_IR_MSG.with(|m| m.borrow_mut().clear());
	match guarded(|| {
		jrsonnet_ir_parser::parse(
			src,
			&jrsonnet_ir_parser::ParserSettings {
				source: source(src),
			},
		)
	}) {
		Ok(Ok(e)) => {
			let mut o = String::new();
			sx(&e, &mut o);
			(o, None)
		}
		Ok(Err(e)) => {
			LAST_IR_MSG.with(|m| *m.borrow_mut() = e.message.clone());
			(REJECT.into(), Some(e.location.offset))
		}
		Err(p) => (format!("panic: {p}"), None),
	}
}
fn run_peg(src: &str) -> (String, Option<usize>) {
	match guarded(|| {
		jrsonnet_peg_parser::parse(
			src,
			&jrsonnet_peg_parser::ParserSettings {
				source: source(src),
			},
		)
	}) {
		Ok(Ok(e)) => {
			let mut o = String::new();
			sx(&e, &mut o);
			(o, None)
		}
		Ok(Err(e)) => (REJECT.into(), Some(e.location.offset)),
		Err(p) => (format!("panic: {p}"), None),
	}
}
/// Bool(true) = no error reported, Bool(false) = errors, String = panic
fn run_rowan(src: &str) -> Value {
	match guarded(|| jrsonnet_rowan_parser::parse(src).1.is_empty()) {
		Ok(b) => Value::Bool(b),
		Err(p) => Value::String(format!("panic: {p}")),
	}
}

// ------------------------------------------------------------------------------------------
// case emission
// ------------------------------------------------------------------------------------------
struct Ctx {
	w: CaseWriter,
	hist: BTreeMap<String, u64>,
	all_reject: u64,
	seen: std::collections::HashSet<String>,
}
impl Ctx {
	fn bump(&mut self, k: &str) {
		*self.hist.entry(k.to_string()).or_insert(0) += 1;
	}
	/// returns (ir outcome, viable-prefix flag)
	fn agree(&mut self, gen: &str, src: &str, base: Option<&str>, skip_all_reject: bool) -> (String, bool) {
		let (ir, ir_off) = run_ir(src);
		let ir_msg = LAST_IR_MSG.with(|m| m.borrow().clone());
		let (peg, peg_off) = run_peg(src);
		let rowan = run_rowan(src);
		let viable = ir != REJECT
			|| peg != REJECT
			|| ir_off.is_some_and(|o| o >= src.len())
			|| peg_off.is_some_and(|o| o >= src.len());
		self.bump(&format!("gen.{gen}"));
		let outcome = if ir == REJECT && peg == REJECT {
			"both-reject"
		} else if ir == REJECT || peg == REJECT {
			"one-rejects"
		} else if ir == peg {
			"same-tree"
		} else {
			"different-tree"
		};
		self.bump(&format!("outcome.{outcome}"));
		if skip_all_reject && ir == REJECT && peg == REJECT && rowan != Value::Bool(true) {
			// rejected by both evaluator parsers and not error-free in the rowan parser (an error
			// list or a panic; the panic itself is C04/C20 material and is only counted here)
			self.all_reject += 1;
			if rowan != Value::Bool(false) {
				self.bump("rowan.panic-on-rejected-text");
			}
			return (ir, viable);
		}
		if !self.seen.insert(src.to_string()) {
			return (ir, viable);
		}
		let mut op = json!({"op":"c06.agree","gen":gen,"src":src,"ir":ir,"peg":peg,"rowan":rowan,
			"size": src.len()});
		if let Some(b) = base {
			op["base"] = json!(b);
		}
		if !ir_msg.is_empty() {
			op["ir_msg"] = json!(ir_msg);
		}
		if outcome == "both-reject" {
			op["trivial"] = json!(true);
		}
		self.w.case(op, json!({}));
		(ir, viable)
	}
	fn pratt(&mut self, gen: &str, toks: &[String], want: Option<&str>) {
		let src = toks.join(" ");
		for via in ["ir", "peg"] {
			let (ast, _) = if via == "ir" { run_ir(&src) } else { run_peg(&src) };
			let mut op = json!({"op":"c06.pratt","gen":gen,"via":via,"toks":toks,"size":src.len()});
			if let Some(w) = want {
				op["want"] = json!(w);
				op["minimal"] = json!(gen != "random-extra-parens");
			}
			self.bump(&format!("pratt.{via}.{}", if ast == REJECT { "reject" } else { "accept" }));
			self.w.case(op, json!({"ast": ast}));
		}
	}
	fn unescape(&mut self, gen: &str, s: &str) {
		let cps: Vec<u32> = s.chars().map(|c| c as u32).collect();
		let out = match guarded(|| jrsonnet_ir::unescape::unescape(s)) {
			Ok(Some(o)) => json!(o.chars().map(|c| c as u32).collect::<Vec<_>>()),
			Ok(None) => Value::Null,
			Err(p) => json!(format!("panic: {p}")),
		};
		self.bump(&format!("unescape.{}", if out.is_null() { "reject" } else { "accept" }));
		self.w.case(
			json!({"op":"c06.unescape","gen":gen,"s":cps,"size":cps.len(),"_text":s}),
			json!({"out": out}),
		);
	}
}

/// bit pattern (decimal) of the number when the whole text parses to a plain number literal
fn num_of(e: &Expr) -> String {
	match e {
		Expr::Num(n) => n.to_bits().to_string(),
		_ => "other".into(),
	}
}
fn ir_expr(src: &str) -> Option<Expr> {
	guarded(|| {
		jrsonnet_ir_parser::parse(src, &jrsonnet_ir_parser::ParserSettings { source: source(src) }).ok()
	})
	.ok()
	.flatten()
}
fn peg_expr(src: &str) -> Option<Expr> {
	guarded(|| {
		jrsonnet_peg_parser::parse(src, &jrsonnet_peg_parser::ParserSettings { source: source(src) }).ok()
	})
	.ok()
	.flatten()
}
fn str_of(e: Option<Expr>) -> Value {
	match e {
		Some(Expr::Str(s)) => json!(s.chars().map(|c| c as u32).collect::<Vec<_>>()),
		_ => Value::Null,
	}
}
fn lexemes_json(src: &str) -> Value {
	Value::Array(Lexer::new(src).map(|l| json!([format!("{:?}", l.kind), l.text])).collect())
}

impl Ctx {
	/// `c06.number`: first lexeme of the real lexer, and the value both evaluator parsers give
	/// to the whole text when it is one number literal
	fn number(&mut self, gen: &str, s: &str, lit: Option<Value>) {
		let cps: Vec<u32> = s.chars().map(|c| c as u32).collect();
		let lex = match guarded(|| Lexer::new(s).next().map(|l| (l.kind, l.text.chars().count()))) {
			Ok(Some((k, n)))
				if matches!(
					k,
					SyntaxKind::FLOAT
						| SyntaxKind::ERROR_FLOAT_JUNK_AFTER_POINT
						| SyntaxKind::ERROR_FLOAT_JUNK_AFTER_EXPONENT
						| SyntaxKind::ERROR_FLOAT_JUNK_AFTER_EXPONENT_SIGN
				) =>
			{
				json!({"kind": format!("{k:?}"), "len": n})
			}
			Ok(_) => Value::Null,
			Err(p) => json!(format!("panic: {p}")),
		};
		let ir = ir_expr(s).map_or("other".to_string(), |e| num_of(&e));
		let peg = peg_expr(s).map_or("other".to_string(), |e| num_of(&e));
		self.bump(&format!("number.{gen}.{}", if ir == "other" { "not-a-number" } else { "number" }));
		let mut op = json!({"op":"c06.number","gen":gen,"s":cps,"size":cps.len(),"_text":s});
		if let Some(l) = lit {
			op["lit"] = l;
		}
		self.w.case(op, json!({"lex": lex, "ir": ir, "peg": peg}));
	}
	/// `c06.verbatim`: decoded content when the whole text is one verbatim string
	fn verbatim(&mut self, gen: &str, q: char, s: &str, content: Option<&str>) {
		let cps: Vec<u32> = s.chars().map(|c| c as u32).collect();
		let ir = str_of(ir_expr(s));
		let peg = str_of(peg_expr(s));
		self.bump(&format!("verbatim.{gen}.{}", if ir.is_null() { "reject" } else { "accept" }));
		let mut op = json!({"op":"c06.verbatim","gen":gen,"q":q as u32,"s":cps,"size":cps.len(),"_text":s});
		if let Some(c) = content {
			op["content"] = json!(c.chars().map(|c| c as u32).collect::<Vec<_>>());
		}
		self.w.case(op, json!({"ir": ir, "peg": peg}));
	}
	/// `c06.strip`: the lexeme streams of a program and of the same program with trivia inserted
	fn strip(&mut self, src: &str, base_src: &str, base: &str) {
		let (ir, _) = run_ir(src);
		self.bump("strip");
		self.w.case(
			json!({"op":"c06.strip","lexemes":lexemes_json(src),"base":lexemes_json(base_src),"size":src.len(),"_src":src}),
			json!({"same_tree": ir == base}),
		);
	}
}

// ------------------------------------------------------------------------------------------
// generators
// ------------------------------------------------------------------------------------------
fn digits(rng: &mut Rng, n: usize, first_nonzero: bool) -> String {
	(0..n)
		.map(|i| {
			if i == 0 && first_nonzero {
				char::from(b'1' + rng.below(9) as u8)
			} else {
				char::from(b'0' + rng.below(10) as u8)
			}
		})
		.collect()
}
fn groups(rng: &mut Rng, first_nonzero: bool, long: bool) -> Vec<String> {
	let n = 1 + if rng.chance(1, 2) { 0 } else { rng.below(3) };
	(0..n)
		.map(|i| {
			let len = 1 + rng.below(if long { 12 } else { 3 });
			digits(rng, len, first_nonzero && i == 0)
		})
		.collect()
}
fn numbers(c: &mut Ctx, rng: &mut Rng, max_len: usize, n_random: usize) {
	// (a) every text over a number alphabet that starts with a digit
	let alpha = ['0', '1', '9', '_', '.', 'e', 'E', '+', '-', 'a'];
	let mut frontier: Vec<String> = vec!["0".into(), "1".into(), "9".into()];
	for _ in 1..=max_len {
		let mut next = Vec::new();
		for s in &frontier {
			c.number("exhaustive", s, None);
			if s.chars().count() < max_len {
				for a in alpha {
					let mut q = s.clone();
					q.push(a);
					next.push(q);
				}
			}
		}
		frontier = next;
	}
	// (b) structured literals of the grammar, rendered here and re-rendered by the Lean Spec
	for _ in 0..n_random {
		let long_i = rng.chance(1, 4);
		let long_f = rng.chance(1, 4);
		let int = if rng.chance(1, 6) { vec!["0".to_string()] } else { groups(rng, true, long_i) };
		let frac = if rng.chance(1, 2) { Some(groups(rng, false, long_f)) } else { None };
		let exp = if rng.chance(1, 2) {
			let l = if rng.chance(1, 2) { "e" } else { "E" };
			let s = *rng.pick(&[None, Some("+"), Some("-")]);
			let g = if rng.chance(1, 3) {
				vec![(*rng.pick(&["308", "309", "307", "323", "324", "325", "400", "22", "23", "0", "00", "15", "16", "17"])).to_string()]
			} else {
				groups(rng, false, false)
			};
			Some((l, s, g))
		} else {
			None
		};
		let mut text = int.join("_");
		if let Some(f) = &frac {
			text.push('.');
			text.push_str(&f.join("_"));
		}
		if let Some((l, s, g)) = &exp {
			text.push_str(l);
			if let Some(s) = s {
				text.push_str(s);
			}
			text.push_str(&g.join("_"));
		}
		let lit = json!({"int": int, "frac": frac, "exp": exp.as_ref().map(|(l, s, g)| json!({"l": l, "s": s, "g": g}))});
		c.number("structured", &text, Some(lit));
	}
	// (c) rounding / range boundaries and glued junk
	for s in [
		"1.7976931348623157e308", "1.7976931348623158e308", "1.7976931348623159e308", "179769313486231580793728971405303415079934132710037826936173778980444968292764750946649017977587207096330286416692887910946555547851940402630657488671505820681908902000708383676273854845817711531764475730270069855571366959622842914819860834936475292719074168444365510704342711559699508093042880177904174497791.9999999999999999999999999999999999999999999999999999999999999999999999999999",
		"4.9e-324", "5e-324", "2.4703282292062327e-324", "2.4703282292062328e-324", "2.2250738585072014e-308", "2.2250738585072011e-308",
		"9007199254740993", "9007199254740992", "9007199254740995", "9007199254740993.0000000000000000000000000000000000001", "0.1", "0.3", "1e23", "8.41e21", "1e-400", "1e400",
		"0e999999999", "0.0e-999999999", "1e99999999999999999999", "1e-99999999999999999999", "123456789012345678901234567890", "0.000000000000000000000000000000000000000000001",
		"1else", "1.e5", "1.5.5", "1e5.x", "1.5e5e5", "1_000_000", "1_0.0_1e0_1", "1e+0_0", "0_0", "00", "0x1", "1ee5", "1e+-5", "1.+5", "1._5", "1_.5", "1._", "1e_5", "1e5_", "1é", "1.é", "1eé", "1e+é", "1e+",
		"1in x", "1if", "1.0in x", "1e", "1E", "1e5e", "1.5E+", "9e", "9.a", "0.a", "0e", "0ea", "0.0ea", "0.0e+a", "0_", "0_a",
	] {
		c.number("boundary", s, None);
	}
}

/// (kind, source text, span-erased rendering of the payload)
const SUFFIXES: &[(&str, &str, &str)] = &[
	("part", ". f", "\"f\""),
	("part", "[ i ]", "i"),
	("part", "[ 1 + 2 ]", "(Add 1 2)"),
	("slice", "[ : 2 ]", "_ 2 _"),
	("slice", "[ 1 : ]", "1 _ _"),
	("slice", "[ : : 3 ]", "_ _ 3"),
	("slice", "[ :: ]", "_ _ _"),
	("slice", "[ 1 : 2 : 3 ]", "1 2 3"),
	("call", "( )", "(args)"),
	("call", "( 1 , x = 2 )", "(args 1 (x= 2))"),
	("call", "( 1 ) tailstrict", "(args 1) tailstrict"),
	("ext", "{ }", "(members)"),
	("ext", "{ k : 1 }", "(members (field \"k\" Normal 1))"),
];
const SUFFIX_BASES: &[(&str, &str)] = &[("a", "a"), ("( a . b )", "(index a \"b\")"), ("( a )", "a")];

/// `c06.suffix`: every chain of suffixes up to a length bound after every base operand
fn suffixes(c: &mut Ctx, max_len: usize) {
	for (btext, bsx) in SUFFIX_BASES {
		let mut frontier: Vec<Vec<usize>> = vec![vec![]];
		for _ in 0..=max_len {
			let mut next = Vec::new();
			for chain in &frontier {
				let mut src = btext.to_string();
				let mut items = Vec::new();
				for i in chain {
					src.push(' ');
					src.push_str(SUFFIXES[*i].1);
					items.push(json!([SUFFIXES[*i].0, SUFFIXES[*i].2]));
				}
				let (ir, _) = run_ir(&src);
				let (peg, _) = run_peg(&src);
				c.bump(&format!("suffix.len{}", chain.len()));
				c.w.case(
					json!({"op":"c06.suffix","base":bsx,"items":items,"size":src.len(),"_src":src}),
					json!({"ir": ir, "peg": peg}),
				);
				if chain.len() < max_len {
					for i in 0..SUFFIXES.len() {
						let mut q = chain.clone();
						q.push(i);
						next.push(q);
					}
				}
			}
			frontier = next;
		}
	}
}

fn verbatims(c: &mut Ctx, rng: &mut Rng, max_len: usize, n_random: usize) {
	for q in ['"', '\''] {
		let other = if q == '"' { '\'' } else { '"' };
		let alpha = [q, other, 'a', '\\', 'é'];
		let mut frontier: Vec<String> = vec![format!("@{q}")];
		for _ in 0..=max_len {
			let mut next = Vec::new();
			for s in &frontier {
				c.verbatim("exhaustive", q, s, None);
				if s.chars().count() < max_len + 2 {
					for a in alpha {
						let mut t = s.clone();
						t.push(a);
						next.push(t);
					}
				}
			}
			frontier = next;
		}
		let calpha = [q, q, other, 'a', '\\', '\n', ' ', 'é', '😀', '@', '\t'];
		for _ in 0..n_random {
			let n = rng.below(9);
			let content: String = (0..n).map(|_| *rng.pick(&calpha)).collect();
			let mut text = format!("@{q}");
			for ch in content.chars() {
				text.push(ch);
				if ch == q {
					text.push(q);
				}
			}
			text.push(q);
			c.verbatim("structured", q, &text, Some(&content));
		}
	}
}

const ALPHABET: [&str; 25] = [
	"x", "1", "\"s\"", "(", ")", "[", "]", "{", "}", ":", ",", ".", "+", "-", "*", "~", "==", "in",
	"if", "then", "else", "local", "=", ";", "for",
];

/// tokens joined by one space; adjacent ':' are glued (`::`/`:::` are single tokens of the
/// grammar, the lexer only knows ':')
fn join(toks: &[&str]) -> String {
	let mut s = String::new();
	for (i, t) in toks.iter().enumerate() {
		if i > 0 && !(*t == ":" && toks[i - 1] == ":") {
			s.push(' ');
		}
		s.push_str(t);
	}
	s
}

fn exhaustive(c: &mut Ctx, full_len: usize, max_len: usize) {
	// breadth-first; beyond `full_len` only viable prefixes are extended
	let mut frontier: Vec<Vec<u8>> = vec![vec![]];
	for len in 1..=max_len {
		let mut next = Vec::new();
		for p in &frontier {
			for (i, _) in ALPHABET.iter().enumerate() {
				let mut q = p.clone();
				q.push(i as u8);
				let toks: Vec<&str> = q.iter().map(|i| ALPHABET[*i as usize]).collect();
				let src = join(&toks);
				let (_, viable) = c.agree(&format!("exh{len}"), &src, None, true);
				if len < full_len || (viable && len < max_len) {
					next.push(q);
				}
			}
		}
		frontier = next;
	}
}

const BINOPS: [(&str, &str, u8); 19] = [
	("*", "Mul", 3),
	("/", "Div", 3),
	("%", "Mod", 3),
	("+", "Add", 4),
	("-", "Sub", 4),
	("<<", "Lhs", 5),
	(">>", "Rhs", 5),
	("<", "Lt", 6),
	(">", "Gt", 6),
	("<=", "Lte", 6),
	(">=", "Gte", 6),
	("in", "In", 6),
	("==", "Eq", 7),
	("!=", "Neq", 7),
	("&", "BitAnd", 8),
	("^", "BitXor", 9),
	("|", "BitOr", 10),
	("&&", "And", 11),
	("||", "Or", 12),
];
const UNOPS: [(&str, &str); 4] = [("+", "Plus"), ("-", "Minus"), ("!", "Not"), ("~", "BitNot")];

#[derive(Clone, Debug)]
enum A {
	Atom(String),
	Un(usize, Box<A>),
	Bin(usize, Box<A>, Box<A>),
}
impl A {
	fn sexpr(&self) -> String {
		match self {
			A::Atom(s) => s.clone(),
			A::Un(u, e) => format!("({} {})", UNOPS[*u].1, e.sexpr()),
			A::Bin(o, l, r) => format!("({} {} {})", BINOPS[*o].1, l.sexpr(), r.sexpr()),
		}
	}
	/// Jsonnet grammar level: 0 atom, 2 unary, 3.. binary
	fn level(&self) -> u8 {
		match self {
			A::Atom(_) => 0,
			A::Un(..) => 2,
			A::Bin(o, ..) => BINOPS[*o].2,
		}
	}
	/// minimal parentheses per the Jsonnet grammar (all binary operators left-associative,
	/// unary binds tighter than every binary operator); `extra` adds redundant parentheses
	fn print(&self, out: &mut Vec<String>, rng: &mut Option<&mut Rng>) {
		let extra = rng.as_mut().is_some_and(|r| r.chance(1, 8));
		if extra {
			out.push("(".into());
		}
		match self {
			A::Atom(s) => out.push(s.clone()),
			A::Un(u, e) => {
				out.push(UNOPS[*u].0.into());
				let paren = e.level() > 2;
				if paren {
					out.push("(".into());
				}
				e.print(out, rng);
				if paren {
					out.push(")".into());
				}
			}
			A::Bin(o, l, r) => {
				let lv = BINOPS[*o].2;
				let lp = l.level() > lv;
				let rp = r.level() >= lv;
				if lp {
					out.push("(".into());
				}
				l.print(out, rng);
				if lp {
					out.push(")".into());
				}
				out.push(BINOPS[*o].0.into());
				if rp {
					out.push("(".into());
				}
				r.print(out, rng);
				if rp {
					out.push(")".into());
				}
			}
		}
		if extra {
			out.push(")".into());
		}
	}
}
fn atom(s: &str) -> Box<A> {
	Box::new(A::Atom(s.into()))
}
fn rand_ast(rng: &mut Rng, depth: usize) -> A {
	if depth == 0 || rng.chance(1, 5) {
		return A::Atom((*rng.pick(&["a", "b", "c", "1", "2", "x"])).to_string());
	}
	if rng.chance(1, 4) {
		A::Un(rng.below(4), Box::new(rand_ast(rng, depth - 1)))
	} else {
		A::Bin(
			rng.below(19),
			Box::new(rand_ast(rng, depth - 1)),
			Box::new(rand_ast(rng, depth - 1)),
		)
	}
}

fn operators(c: &mut Ctx, rng: &mut Rng, n_random: usize) {
	let emit = |c: &mut Ctx, gen: &str, a: &A| {
		let mut toks = Vec::new();
		a.print(&mut toks, &mut None);
		c.pratt(gen, &toks, Some(&a.sexpr()));
		let src = toks.join(" ");
		c.agree(gen, &src, None, false);
	};
	// every ordered pair of binary operators in both association positions
	for o1 in 0..19 {
		for o2 in 0..19 {
			emit(c, "pair-left", &A::Bin(o2, Box::new(A::Bin(o1, atom("a"), atom("b"))), atom("c")));
			emit(c, "pair-right", &A::Bin(o1, atom("a"), Box::new(A::Bin(o2, atom("b"), atom("c")))));
		}
	}
	// every unary with every binary in every position, and stacked unaries
	for u in 0..4 {
		for o in 0..19 {
			emit(c, "un-left", &A::Bin(o, Box::new(A::Un(u, atom("a"))), atom("b")));
			emit(c, "un-right", &A::Bin(o, atom("a"), Box::new(A::Un(u, atom("b")))));
			emit(c, "un-over", &A::Un(u, Box::new(A::Bin(o, atom("a"), atom("b")))));
			for o2 in [0usize, 3, 12, 18] {
				emit(
					c,
					"un-mid",
					&A::Bin(o2, Box::new(A::Bin(o, atom("a"), Box::new(A::Un(u, atom("b"))))), atom("c")),
				);
			}
		}
		for u2 in 0..4 {
			emit(c, "un-un", &A::Un(u, Box::new(A::Un(u2, atom("a")))));
		}
	}
	// raw (unparenthesised) token strings: the tree is decided by the tables alone
	for o1 in 0..19 {
		for o2 in 0..19 {
			let toks: Vec<String> =
				["a", BINOPS[o1].0, "b", BINOPS[o2].0, "c"].iter().map(|s| s.to_string()).collect();
			c.pratt("raw-pair", &toks, None);
			for u in 0..4 {
				let toks: Vec<String> = [UNOPS[u].0, "a", BINOPS[o1].0, UNOPS[u].0, "b", BINOPS[o2].0, "c"]
					.iter()
					.map(|s| s.to_string())
					.collect();
				c.pratt("raw-un-pair", &toks, None);
			}
		}
	}
	for _ in 0..n_random {
		let d = 2 + rng.below(5);
		let a = rand_ast(rng, d);
		let mut toks = Vec::new();
		let redundant = rng.chance(1, 3);
		{
			let mut r = if redundant { Some(&mut *rng) } else { None };
			a.print(&mut toks, &mut r);
		}
		c.pratt(if redundant { "random-extra-parens" } else { "random-minimal" }, &toks, Some(&a.sexpr()));
		if rng.chance(1, 4) {
			c.agree("random-ast", &toks.join(" "), None, false);
		}
	}
	// malformed expression-fragment streams
	let frag: Vec<&str> = ["a", "1", "(", ")", "+", "-", "!", "~", "*", "==", "in", "&&", "<<"].to_vec();
	for _ in 0..n_random / 2 {
		let n = 1 + rng.below(8);
		let toks: Vec<String> = (0..n).map(|_| (*rng.pick(&frag)).to_string()).collect();
		c.pratt("random-tokens", &toks, None);
	}
}

const PROGRAMS: &[&str] = &[
	"local a = 1 , b = 2 ; a + b",
	"local f ( x , y = 1 ) = x + y ; f ( 2 , y = 3 )",
	"{ a : 1 , b :: 2 , c ::: 3 , d +: 4 , e ( x ) : x , [ \"f\" ] : 5 , \"g\" : 6 }",
	"{ local v = 1 , assert v == 1 : \"m\" , a : v }",
	"{ [ k ] : 1 for k in [ \"a\" , \"b\" ] if k != \"a\" }",
	"[ x * 2 for x in [ 1 , 2 , 3 ] if x > 1 for y in [ x ] ]",
	"[ 1 , 2 , 3 ] [ 1 : 2 : 1 ]",
	"a [ 1 : ] [ : 2 ] [ : : 3 ] [ : ]",
	"if a then b else c",
	"if a then b",
	"function ( a , b = 2 ) a + b",
	"assert a : \"msg\" ; b",
	"error \"boom\"",
	"import \"a.libsonnet\"",
	"importstr \"a.txt\"",
	"importbin \"a.bin\"",
	"a . b . c ( 1 , 2 ) [ 3 ] . d",
	"f ( 1 ) tailstrict",
	"a { b : 1 } { c : 2 }",
	"self . a + super . b + $ . c",
	"\"x\" in super",
	"- a . b * ! c ( 1 )",
	"[ null , true , false , self , $ ]",
	"{ a : if x then 1 else 2 , b : local y = 1 ; y }",
	"local a = function ( x ) x ; a ( 1 ) + a ( x = 2 )",
	"( a + b ) * c",
	"1 + 2 * 3 - 4 / 5 % 6",
	"a && b || c && ! d",
	"a | b ^ c & d == e < f << g + h * i",
	"x . y { z : 1 } . w",
	"[ ]",
	"{ }",
	"@\"a\"\"b\" + @'c''d'",
	"|||\n  text\n  more\n|||",
	"{ \"a b\" : 1 , 'c' : 2 }",
	"a [ b ] [ c ] ( d ) ( e )",
	"local x = 1 ; local y = 2 ; x + y",
	"1e3 + 1.5 + 1_000 + 0.1e-2",
];

fn lex_tokens(src: &str) -> Vec<String> {
	Lexer::new(src)
		.filter(|l| {
			!matches!(
				l.kind,
				SyntaxKind::WHITESPACE
					| SyntaxKind::SINGLE_LINE_SLASH_COMMENT
					| SyntaxKind::SINGLE_LINE_HASH_COMMENT
					| SyntaxKind::MULTI_LINE_COMMENT
			)
		})
		.map(|l| l.text.to_string())
		.collect()
}

fn mutations(c: &mut Ctx, rng: &mut Rng, per_program: usize) {
	for p in PROGRAMS {
		c.agree("program", p, None, false);
		let toks = lex_tokens(p);
		let render = |t: &[String]| {
			let v: Vec<&str> = t.iter().map(String::as_str).collect();
			join(&v)
		};
		// every single-token deletion
		for i in 0..toks.len() {
			let mut t = toks.clone();
			t.remove(i);
			c.agree("mut-delete", &render(&t), None, false);
		}
		let extra = ["tailstrict", "function", "assert", "error", "import", "null", "self", "super", "$", "!", "::", ":::", "+:", "/", "%", "<", "&&", "||", "|", "&", "^", "!=", "..."];
		for _ in 0..per_program {
			let mut t = toks.clone();
			let tok = if rng.chance(2, 3) {
				(*rng.pick(&ALPHABET)).to_string()
			} else {
				(*rng.pick(&extra)).to_string()
			};
			let i = rng.below(t.len() + 1);
			if rng.chance(1, 2) && i < t.len() {
				t[i] = tok;
				c.agree("mut-replace", &render(&t), None, false);
			} else {
				t.insert(i, tok);
				c.agree("mut-insert", &render(&t), None, false);
			}
		}
	}
}

const TRIVIA: &[&str] = &[
	" ", "  ", "\n", "\t", "\r\n", " /* c */ ", "/* c */", " // c\n", " # c\n", "/**/", "/***/", "/* **/",
	"/* * */", "/*\n*/", " //\n", "#\n",
];

/// append trivia after `s`; a comment opener directly after a `/` token would form `//`
fn push_trivia(s: &mut String, tr: &str) {
	if s.ends_with('/') && (tr.starts_with('/') || tr.starts_with('*')) {
		s.push(' ');
	}
	s.push_str(tr);
}

fn trivia(c: &mut Ctx, rng: &mut Rng, per_program: usize) {
	let glue = |l: &str, r: &str| {
		let safe = |ch: char| ")]},;([{".contains(ch);
		l.chars().last().is_some_and(safe) || r.chars().next().is_some_and(safe)
	};
	for p in PROGRAMS {
		let toks = lex_tokens(p);
		let v: Vec<&str> = toks.iter().map(String::as_str).collect();
		let base_src = join(&v);
		let (base, _) = run_ir(&base_src);
		// systematic: one trivia form at every boundary
		for (k, tr) in TRIVIA.iter().enumerate() {
			let mut s = String::new();
			if k % 2 == 0 {
				push_trivia(&mut s, tr);
			}
			for (i, t) in toks.iter().enumerate() {
				if i > 0 && !(t == ":" && toks[i - 1] == ":") {
					push_trivia(&mut s, tr);
				}
				s.push_str(t);
			}
			if k % 3 == 0 {
				push_trivia(&mut s, tr);
			}
			c.agree(&format!("trivia-all:{}", tr.escape_default()), &s, Some(&base), false);
		}
		for _ in 0..per_program {
			let mut s = String::new();
			if rng.chance(1, 3) {
				push_trivia(&mut s, *rng.pick(TRIVIA));
			}
			for (i, t) in toks.iter().enumerate() {
				if i > 0 && !(t == ":" && toks[i - 1] == ":") {
					if rng.chance(1, 4) && glue(&toks[i - 1], t) {
						// no trivia at all
					} else {
						push_trivia(&mut s, *rng.pick(TRIVIA));
						if rng.chance(1, 4) {
							push_trivia(&mut s, *rng.pick(TRIVIA));
						}
					}
				}
				s.push_str(t);
			}
			if rng.chance(1, 3) {
				push_trivia(&mut s, *rng.pick(TRIVIA));
			}
			c.agree("trivia-random", &s, Some(&base), false);
			c.strip(&s, &base_src, &base);
		}
	}
}

// ------------------------------------------------------------------------------------------
// parameter lists with duplicated names
// ------------------------------------------------------------------------------------------

/// where a parameter list can be written: text before the `(`, text behind the `)`
const PARAM_SITES: &[(&str, &str, &str)] = &[
	("function", "function", " a"),
	("local-fn", "local f", " = a; 1"),
	("local-eq-function", "local f = function", " a; 1"),
	("method", "{ m", ":: a }"),
	("method-visible", "{ v: 1, \"m\"", ": a, w: 2 }"),
	("object-local-fn", "{ local m", " = a, v: 1 }"),
	("field-function", "{ v: function", " a }"),
	("argument", "std.length(function", " a)"),
	("default-of-outer", "function(z, y = function", " a) z"),
	("objcomp-local-fn", "{ local m", " = a, [k]: 1 for k in ['x'] }"),
];

/// `c06.agree` on parameter lists: for every length 1..=5 the list without duplicates (control),
/// with the same name at EVERY pair of positions, and with a name three times; each with several
/// placements of default values, at every site a parameter list can be written, with and without a
/// trailing comma.  A duplicated name is a static error in the grammar: all three parsers reject.
fn param_lists(c: &mut Ctx, rng: &mut Rng, n_random: usize) {
	const NAMES: [&str; 12] = ["a", "b", "c", "d", "e", "x", "y", "p", "q", "r", "foo", "self_"];
	let render = |names: &[usize], defaults: &[bool], trailing: bool| {
		let mut s = String::from("(");
		for (i, n) in names.iter().enumerate() {
			if i > 0 {
				s.push_str(", ");
			}
			s.push_str(NAMES[*n]);
			if defaults[i] {
				s.push_str(&format!(" = {}", i + 1));
			}
		}
		if trailing {
			s.push(',');
		}
		s.push(')');
		s
	};
	let emit = |c: &mut Ctx, gen: &str, names: &[usize], defaults: &[bool], trailing: bool, only_site: Option<usize>| {
		let list = render(names, defaults, trailing);
		for (k, (site, pre, post)) in PARAM_SITES.iter().enumerate() {
			if only_site.is_some_and(|o| o != k) {
				continue;
			}
			c.agree(&format!("{gen}.{site}"), &format!("{pre}{list}{post}"), None, false);
		}
	};
	for n in 1..=5usize {
		let mut shapes: Vec<(String, Vec<usize>)> = vec![("params-distinct".into(), (0..n).collect())];
		for j in 1..n {
			for i in 0..j {
				let mut v: Vec<usize> = (0..n).collect();
				v[j] = v[i];
				let what = if j == n - 1 { "dup-involves-last" } else { "dup-before-last" };
				shapes.push((format!("params-{what}"), v));
			}
		}
		if n >= 3 {
			for (x, y, z) in [(0, 1, 2), (0, n / 2, n - 1), (0, 1, n - 1)] {
				if x < y && y < z {
					let mut v: Vec<usize> = (0..n).collect();
					v[y] = v[x];
					v[z] = v[x];
					shapes.push(("params-triple".into(), v));
				}
			}
		}
		for (gen, names) in &shapes {
			// positions of the (first) duplicate pair, or the ends of the list
			let j = (1..n).find(|j| names[..*j].contains(&names[*j])).unwrap_or(n - 1);
			let i = names.iter().position(|x| *x == names[j]).unwrap_or(0);
			let patterns: Vec<Vec<bool>> = vec![
				vec![false; n],
				vec![true; n],
				(0..n).map(|k| k >= j).collect(),
				(0..n).map(|k| k == j).collect(),
				(0..n).map(|k| k == i).collect(),
				(0..n).map(|k| k + 1 == n).collect(),
				(0..n).map(|k| k > j).collect(),
			];
			for (pi, d) in patterns.iter().enumerate() {
				emit(c, gen, names, d, false, None);
				if pi < 2 {
					emit(c, &format!("{gen}-trailing-comma"), names, d, true, None);
				}
			}
		}
	}
	// longer lists: one or two duplicated pairs anywhere, random defaults, one site each
	for _ in 0..n_random {
		let n = 2 + rng.below(11);
		let mut names: Vec<usize> = (0..n).collect();
		let dups = rng.below(3);
		for _ in 0..dups {
			let j = 1 + rng.below(n - 1);
			let i = rng.below(j);
			names[j] = names[i];
		}
		let from = rng.below(n + 1);
		let defaults: Vec<bool> = (0..n).map(|k| if rng.chance(1, 2) { k >= from } else { rng.chance(1, 3) }).collect();
		let distinct = (1..n).all(|j| !names[..j].contains(&names[j]));
		let last = !distinct && names[..n - 1].contains(&names[n - 1]);
		let gen = if distinct { "params-random-distinct" } else if last { "params-random-dup-involves-last" } else { "params-random-dup-before-last" };
		emit(c, gen, &names, &defaults, rng.chance(1, 5), Some(rng.below(PARAM_SITES.len())));
	}
}

// ------------------------------------------------------------------------------------------
// malformed / unterminated comments and strings at token boundaries
// ------------------------------------------------------------------------------------------

/// one fragment per lexical error kind of the lexer (comments, strings, text blocks, numbers), and
/// well-formed neighbours as controls.  None of the error fragments is trivia: a text containing one
/// is outside the language, wherever it stands.
const LEX_FRAGMENTS: &[(&str, &str)] = &[
	("comment-unterminated", "/* never closed"),
	("comment-unterminated-bare", "/*"),
	("comment-unterminated-star", "/**"),
	("comment-unterminated-lines", "/* a\n * b\n"),
	("comment-too-short", "/*/"),
	("comment-too-short-twice", "/*/ /*/"),
	("comment-too-short-then-close", "/*/ x */"),
	("comment-closed-control", "/* closed */"),
	("comment-empty-control", "/**/"),
	("comment-close-only", "*/"),
	("string-double-unterminated", "\"abc"),
	("string-single-unterminated", "'abc"),
	("string-double-unterminated-escape", "\"abc\\\""),
	("verbatim-double-unterminated", "@\"abc"),
	("verbatim-single-unterminated", "@'ab''c"),
	("verbatim-missing-quotes", "@"),
	("text-block-no-newline", "|||"),
	("text-block-unexpected-end", "|||\n"),
	("text-block-missing-termination", "|||\n  a\n"),
	("text-block-missing-indent", "|||\na\n|||"),
	("number-junk-after-point", "1.x"),
	("number-junk-after-exponent", "1ex"),
	("string-bad-escape", "\"\\q\""),
	("line-comment-control", "// c\n"),
	("hash-comment-no-newline-control", "# c"),
];

/// programs that stay complete when something that is skipped follows or sits between their parts
const LEX_HOSTS: &[&str] = &[
	"{ a : 1 }",
	"[ 1 , 2 ] + [ 3 ]",
	"1",
	"local a = 1 ; a",
	"f ( 1 , 2 )",
	"( 1 )",
	"a . b [ 0 ]",
	"{ a : [ 1 , { b : 2 } ] , c :: 3 }",
	"function ( x , y = 2 ) x + y",
	"if a then b else c",
	"[ x for x in [ 1 ] if x > 0 ]",
	"\"s\" + 't'",
];

/// `c06.agree`: every fragment at EVERY token boundary (start of file, between any two tokens, inside
/// brackets, end of file) of the host programs and of `PROGRAMS`, set off by blanks, glued to its
/// neighbours, and on a line of its own
fn lexical_errors_at_boundaries(c: &mut Ctx, rng: &mut Rng, per_program: usize) {
	for host in LEX_HOSTS {
		let toks = lex_tokens(host);
		for at in 0..=toks.len() {
			for (name, frag) in LEX_FRAGMENTS {
				for style in 0..3 {
					let src = render_with_fragment(&toks, at, frag, style);
					c.agree(&format!("lexerr-boundary.{name}"), &src, None, true);
				}
			}
		}
	}
	for p in PROGRAMS {
		let toks = lex_tokens(p);
		// the end of the file and the places behind a closing bracket always, other boundaries sampled
		for at in 0..=toks.len() {
			let behind_closer = at > 0 && matches!(toks[at - 1].as_str(), ")" | "]" | "}");
			let always = at == toks.len() || behind_closer;
			for (name, frag) in LEX_FRAGMENTS {
				if always || rng.below(LEX_FRAGMENTS.len() * (toks.len() + 1)) < per_program {
					let src = render_with_fragment(&toks, at, frag, rng.below(3));
					c.agree(&format!("lexerr-program.{name}"), &src, None, true);
				}
			}
		}
	}
}

/// the tokens joined by blanks (`::` kept glued) with `frag` at boundary `at`:
/// style 0 = set off by blanks, 1 = glued to both neighbours, 2 = on a line of its own
fn render_with_fragment(toks: &[String], at: usize, frag: &str, style: usize) -> String {
	let mut s = String::new();
	for i in 0..=toks.len() {
		let glued_colon = i > 0 && i < toks.len() && toks[i] == ":" && toks[i - 1] == ":";
		if i == at {
			match style {
				0 => {
					if i > 0 {
						s.push(' ');
					}
					s.push_str(frag);
					if i < toks.len() {
						s.push(' ');
					}
				}
				1 => push_trivia(&mut s, frag),
				_ => {
					if i > 0 {
						s.push('\n');
					}
					s.push_str(frag);
					s.push('\n');
				}
			}
		} else if i > 0 && i < toks.len() && !glued_colon {
			s.push(' ');
		}
		if i < toks.len() {
			s.push_str(&toks[i]);
		}
	}
	s
}

fn literals(c: &mut Ctx) {
	let mut v: Vec<String> = Vec::new();
	// every escape letter, both quote styles
	for ch in 0x20u8..0x7f {
		let ch = ch as char;
		v.push(format!("\"a\\{ch}b\""));
		v.push(format!("'a\\{ch}b'"));
	}
	for u in [
		"0000", "0041", "00e9", "00E9", "d7ff", "D800", "DBFF", "DC00", "DFFF", "E000", "FFFF", "12", "123", "12G4", "",
	] {
		v.push(format!("\"\\u{u}\""));
		v.push(format!("\"\\u{u}z\""));
	}
	for hi in ["D800", "DBFF", "D83D", "d83d"] {
		for lo in ["DC00", "DFFF", "DE00", "de00", "0041", "E000", "DBFF", "D800"] {
			v.push(format!("\"\\u{hi}\\u{lo}\""));
		}
		v.push(format!("\"\\u{hi}x\""));
		v.push(format!("\"\\u{hi}\\n\""));
		v.push(format!("\"\\u{hi}\\u12\""));
	}
	for x in ["00", "41", "7f", "7F", "80", "ff", "FF", "4", "4G", "G4", ""] {
		v.push(format!("\"\\x{x}\""));
		v.push(format!("'\\x{x}z'"));
	}
	for s in [
		"\"\"", "''", "\"a\nb\"", "'a\nb'", "\"é😀\"", "\"'\"", "'\"'", "\"\\\"\"", "'\\''", "\"\\\\\"", "\"\\\"", "\"abc", "'abc",
		"@\"\"", "@''", "@\"a\"\"b\"", "@'a''b'", "@\"a\\nb\"", "@'a\\'", "@\"a\nb\"", "@\"a\"\"\"", "@'''", "@\"\"\"\"", "@\"a", "@'a", "@x", "@",
		"\"a\" \"b\"", "\"a\"\"b\"",
	] {
		v.push(s.to_string());
	}
	// text blocks
	for s in [
		"|||\n  a\n  b\n|||",
		"|||\n  a\n\n  b\n|||",
		"|||\n\n  a\n|||",
		"|||\n  a\n   b\n|||",
		"|||\n   a\n  b\n|||",
		"|||\n\ta\n\tb\n|||",
		"|||\n\t a\n\t b\n|||",
		"|||\n \ta\n\t b\n|||",
		"|||-\n  a\n|||",
		"|||-\n  a\n\n|||",
		"|||- \n  a\n|||",
		"|||  \n  a\n|||",
		"|||\t\n  a\n|||",
		"|||\r\n  a\r\n|||",
		"||| x\n  a\n|||",
		"|||\n  a\n  |||",
		"|||\n  a\n |||",
		"|||\n  a\n   |||",
		"|||\n  a\n\t|||",
		"|||\n  a\n|||\n",
		"|||\n  a\n||| + \"b\"",
		"|||\n  a |||\n|||",
		"|||\n  |||\n|||",
		"|||\na\n|||",
		"|||\n  a",
		"|||\n  a\n",
		"|||\n  a\n||",
		"|||",
		"|||\n",
		"|||\n|||",
		"|||\n\n|||",
		"|||\n  \n|||",
		"|||\n  a\n  \n  b\n|||",
		"|||\n  a\n \n  b\n|||",
		"|||\n  é\n  😀\n|||",
		"|||\n  a\\n\n|||",
		"{ a: |||\n    x\n  |||, b: 1 }",
		"|||\n  a\n|||[0]",
		"|||--\n  a\n|||",
	] {
		v.push(s.to_string());
	}
	// numbers
	for s in [
		"0", "1", "10", "01", "00", "007", "1_000", "1__0", "1_", "_1", "1_000.000_1", "1.0_1", "1._1", "1_.0", "1e1_0", "1_0e1_0", "1e_1",
		"1e+5", "1E-5", "1e5", "1E5", "1e", "1e+", "1.", ".5", "1.5", "1.5.5", "1.e5", "0.0", "0e0", "0x10", "1e999", "1e308", "1e-999",
		"1.7976931348623157e308", "1.7976931348623159e308", "9007199254740993", "0.1", "1 .5", "1.a", "1.5e", "1a", "1_a", "1e5x", "0_1", "0_",
		"1.0e+0_1", "- 1", "-1", "+1", "1 . 5", "1 e5", "0b1", "1f", "123456789012345678901234567890",
	] {
		v.push(s.to_string());
	}
	// reserved words / field names
	for kw in [
		"assert", "else", "error", "false", "for", "function", "if", "import", "importstr", "importbin", "in", "local", "null", "tailstrict",
		"then", "self", "super", "true",
	] {
		v.push(format!("{{ {kw} : 1 }}"));
		v.push(format!("x . {kw}"));
		v.push(format!("{{ \"{kw}\" : 1 }}"));
		v.push(format!("local {kw} = 1 ; 2"));
		v.push(format!("function ( {kw} ) 1"));
		v.push(format!("f ( {kw} = 1 )"));
		v.push(format!("{kw}"));
		v.push(format!("{kw}x"));
		v.push(format!("{kw}_"));
		v.push(format!("{kw}1 + 1"));
		v.push(format!("[ 1 for {kw} in x ]"));
		v.push(format!("1 {kw} 2"));
	}
	// trailing commas and separators in every list context
	for s in [
		"[ 1 , ]", "[ , ]", "[ 1 , , ]", "[ 1 , 2 , ]", "[ , 1 ]", "{ a : 1 , }", "{ , }", "{ a : 1 , , }", "{ , a : 1 }", "f ( 1 , )", "f ( , )",
		"f ( 1 , , )", "f ( a = 1 , )", "f ( a = 1 , 2 )", "f ( 1 , a = 2 )", "f ( a = 1 , a = 2 )", "f ( )", "f ( a == 1 )", "f ( a = = 1 )",
		"function ( a , ) a", "function ( , ) 1", "function ( ) 1", "function ( a , , ) 1", "function ( a = 1 , ) a", "function ( a = 1 , b ) a",
		"local a = 1 , ; a", "local a = 1 , b = 2 , ; a", "local ; a", "local , ; a", "local a = 1 ; ; a", "local f ( a , ) = a ; f", "local f ( ) = 1 ; f",
		"[ x for x in y , ]", "[ x , for x in y ]", "[ x , , for x in y ]", "[ x for x in y ] , ", "[ x , y for x in z ]", "[ x for x in y for z in w , ]",
		"{ [ x ] : 1 , for x in y }", "{ [ x ] : 1 for x in y , }", "{ [ x ] : 1 for x in y }", "{ a : 1 for x in y }", "{ local a = 1 , [ x ] : a for x in y }",
		"{ [ x ] : 1 , local a = 1 for x in y }", "{ [ x ] : 1 , [ y ] : 2 for x in y }", "{ assert true , [ x ] : 1 for x in y }", "{ for x in y }",
		"{ local a = 1 for x in y }", "{ [ x ] : 1 if true }", "[ x if true ]", "[ x if true for y in z ]", "[ for x in y ]",
		"{ a : 1 ; b : 2 }", "{ a : 1 b : 2 }", "[ 1 2 ]", "f ( 1 2 )", "{ a :: : 1 }", "{ a : : 1 }", "{ a : :: 1 }", "{ a :::: 1 }", "{ a + : 1 }", "{ a +:: 1 }",
		"{ a + :: 1 }", "{ a +::: 1 }", "{ a ( x ) +: 1 }", "{ a + ( x ) : 1 }", "{ a ( x ) :: x }", "{ \"a\" ( x ) : x }", "{ [ a ] ( x ) : x }", "{ [ a ] +: 1 }",
		"{ a : 1 } { }", "a { } { }", "a . b { }", "a ( ) { }", "a [ 1 ] { }", "1 { }", "\"s\" { }", "[ ] { }", "( a ) { }", "- a { }", "a + b { }",
		"a tailstrict", "f ( 1 ) tailstrict ( 2 )", "f ( 1 ) tailstrict tailstrict", "f tailstrict ( 1 )", "f ( 1 ) tailstrict . a",
		"a [ ]", "a [ 1 : 2 : 3 : 4 ]", "a [ : : : ]", "a [ :: ]", "a [ 1 :: 2 ]", "a [ ::: ]", "a [ 1 , 2 ]", "a . 1", "a . \"b\"", "a . ( b )", "a . [ b ]", "a ?. b",
		"$ . a", "$a", "$ $", "self self", "super", "super . a", "super [ a ]", "\"a\" in super", "super in a", "super + 1", "a in super . b", "( super )", "super ( )",
		"if a then b else", "if a then", "if a b", "if then else", "if a then b else c else d", "if a then if b then c else d", "if a then b + if c then d else e + f",
		"local a = 1 ; local b = 2 ; a", "local a = 1 local b = 2 ; a", "local a ; a", "local a = ; a", "local a = 1", "local a = 1 ;", "local a ( x ) = x ; a",
		"local a ( x ) ( y ) = x ; a", "local a . b = 1 ; a", "local [ a ] = 1 ; a", "local a = b = 1 ; a",
		"assert a ; b", "assert a : b ; c", "assert a : b : c ; d", "assert a", "assert ; b", "assert a ;", "error a + b", "error", "error error a",
		"import \"a\" + \"b\"", "import a", "import", "import \"a\" . b", "import ( \"a\" )", "import |||\n  a\n|||", "import @\"a\"", "importstr 'a' [ 0 ]",
		"function ( a ) function ( b ) a + b", "function a", "function ( a ) ", "function ( a = 1 = 2 ) a", "function ( 1 ) 1", "function ( \"a\" ) 1", "function ( a . b ) 1",
		"a ( function ( x ) x , y )", "a + function ( x ) x + 1", "- function ( x ) x", "! if a then b else c", "a * local b = 1 ; b + 1", "a == error \"x\" + 1",
		"a in b in c", "a == b == c", "a < b < c", "a < b == c", "! a == b", "- a in b", "~ a & b", "a ^ b ^ c", "a | b | c", "a - b - c", "a / b / c", "a % b % c",
		"a << b << c", "a >> b << c", "a && b && c", "a || b || c", "a != b != c", "a <= b >= c", "- - a", "- + a", "! ! a", "~ ~ a", "+ + a", "- ~ ! + a", "a - - b", "a + + b",
		"a ++ b", "a -- b", "a !b", "a ~ b", "a ! = b", "a = = b", "a < = b", "a > = b", "a < < b", "a > > b", "a & & b", "a | | b", "a <<< b", "a >>> b", "a === b", "a !== b", "a <> b", "a ** b", "a // b\n", "a /* */ b",
		"a &&& b", "a ||| b", "a |||| b", "a || | b",
		"", " ", "\n", "// c", "# c", "/* c */", "/* c", "/*/", "/**/", "/***/", "/****/", "/* **/", "1 /***/", "1 /****/ + 2", "1 /* **/", "1 /* * */", "1 /** doc **/ + 2", "1 // c", "1 # c", "1 //", "1 #", "1 // c\r\n + 2", "1 /* */ */",
		"a\u{a0}+ b", "a\u{2028}+ b", "é", "a.é", "\u{feff}1", "1\u{0}", "1 \u{c} + 2", "1 \u{b} + 2",
	] {
		v.push(s.to_string());
	}
	// forms around the defects repaired in round 4 (kept as regression cases)
	for s in [
		// `::` / `:::` are single tokens
		"{ a ( x ) : : x }", "{ a :/**/: 1 }", "{ a :\n: 1 }", "{ a :: /* c */ : 1 }", "{ a +: : 1 }", "{ a + : : 1 }", "{ a ::: 1 , b :: : 2 }",
		"{ a : : : 1 }", "{ assert a : : b }", "{ a : ::b }", "a [ : : ]", "a [ 1 : : 2 ]", "a [ :/**/: ]",
		// text block indentation is compared character by character
		"|||\n \ta\n \tb\n\t \t|||", "|||\n \ta\n  b\n|||", "|||\n\t\ta\n\t b\n|||", "|||\n  a\n \tb\n|||", "|||\n\ta\n  b\n|||", "|||\n \ta\n \t\tb\n \t|||",
		"|||\n \ta\n\t|||", "|||\n\t a\n \t|||", "|||\n  a\n\t\t\t|||", "|||\n\ta\n        |||",
		// comprehensions end with their specs, the first of which is a for
		"[ x for x in y , for z in w ]", "[ x , for x in y , ]", "[ x for x in y if z , ]", "[ x , if x ]", "[ x if x , ]", "[ x for x in y , z ]",
		"{ [ x ] : 1 for x in y , local a = 1 }", "{ [ x ] : 1 for x in y , for z in w }", "{ [ x ] : 1 if x }", "{ [ x ] : 1 , if x }",
		"{ local a = 1 , for x in y }", "{ local a = 1 , local b = 2 for x in y }", "{ local a = 1 if x }", "{ [ x ] : 1 for x in y if z , }",
		"{ [ x ] : 1 , local a = 1 , for x in y }", "{ [ x ] : 1 for x in y , [ z ] : 2 }", "{ a ( x ) : 1 for x in y }",
		// no `+` before method parameters
		"{ a + ( x ) :: 1 }", "{ \"a\" + ( x ) : 1 }", "{ [ a ] + ( ) : 1 }", "{ a + ( ) +: 1 }", "{ a +( x ) : 1 for x in y }",
		// local / assert as operands
		"a + local b = 1 ; b * assert c ; d", "- local a = 1 ; a", "~ assert a ; b + 1", "a && local b = 1 , c = 2 ; b", "a in local b = 1 ; b", "a * local", "a * assert",
		"! local ; a", "a { } * local b = 1 ; b", "f ( a * local b = 1 ; b )", "[ a * local b = 1 ; b , c ]", "a * local b = 1 ; b { }", "a - assert b : c ; d",
		"a == local b = 1 ; b == c", "- - local a = 1 ; a", "a * local b = 1 , ; b", "a < local f ( x ) = x ; f ( 1 )", "a * ( local b = 1 ; b ) * c",
		// import takes any expression
		"importstr a", "importbin a . b", "import a + 1", "import local a = \"x\" ; a", "import import \"a\"", "import if a then \"b\" else \"c\"", "import )", "import ,",
		"import [ ]", "import { }", "import function ( ) 1", "import - 1", "import error \"x\"", "import 1", "import \"a\" \"b\"", "import a b", "import ( )", "a + import b",
		"import assert a ; \"b\"", "[ import a , importstr b ]", "import /* c */ a", "import self", "import $ . a", "import super . a", "import \"a\" { }", "import a { }",
	] {
		v.push(s.to_string());
	}
	for s in v {
		c.agree("literal", &s, None, false);
	}
}

fn unescapes(c: &mut Ctx, rng: &mut Rng, n_random: usize) {
	c.unescape("plain", "");
	c.unescape("plain", "abc");
	c.unescape("plain", "é😀\u{0}\u{7f}");
	c.unescape("plain", "\\");
	for ch in 0x20u8..0x7f {
		c.unescape("letter", &format!("\\{}", ch as char));
		c.unescape("letter", &format!("a\\{}b", ch as char));
	}
	c.unescape("letter", "\\é");
	c.unescape("letter", "\\\n");
	// \xHH: every value, both cases, malformed
	for b in 0u32..256 {
		c.unescape("x", &format!("\\x{b:02x}"));
		if b % 7 == 0 {
			c.unescape("x", &format!("p\\x{b:02X}q"));
		}
	}
	for s in ["\\x", "\\x4", "\\x4g", "\\xg4", "\\x 4", "\\x+4", "\\x4\\", "\\xé1", "\\x1é"] {
		c.unescape("x-bad", s);
	}
	// \uXXXX classes
	let edge = [
		0x0000u32, 0x0001, 0x0041, 0x007f, 0x0080, 0x00e9, 0x07ff, 0x0800, 0x1234, 0xabcd, 0xd7ff, 0xd800, 0xd801, 0xd83d, 0xdbff, 0xdc00, 0xdc01,
		0xde00, 0xdfff, 0xe000, 0xfffd, 0xfffe, 0xffff,
	];
	for a in edge {
		c.unescape("u", &format!("\\u{a:04x}"));
		c.unescape("u", &format!("<\\u{a:04X}>"));
		for b in edge {
			c.unescape("u-pair", &format!("\\u{a:04x}\\u{b:04x}"));
		}
		c.unescape("u-then", &format!("\\u{a:04x}\\n"));
		c.unescape("u-then", &format!("\\u{a:04x}\\"));
		c.unescape("u-then", &format!("\\u{a:04x}\\u"));
		c.unescape("u-then", &format!("\\u{a:04x}\\u12"));
		c.unescape("u-then", &format!("\\u{a:04x}\\x41"));
		c.unescape("u-then", &format!("\\u{a:04x}u0041"));
	}
	for s in ["\\u", "\\u1", "\\u12", "\\u123", "\\u123g", "\\ug123", "\\u 123", "\\u+123", "\\u12345", "\\U0041", "\\u00e9é", "\\u12é4"] {
		c.unescape("u-bad", s);
	}
	let alpha: Vec<&str> = vec![
		"\\", "\\", "u", "x", "d", "8", "0", "c", "D", "F", "f", "4", "1", "n", "t", "\"", "'", "/", "é", "😀", "g", " ", "\\u", "\\x", "\\ud83d", "\\ude00", "\\\\",
	];
	for _ in 0..n_random {
		let n = 1 + rng.below(9);
		let s: String = (0..n).map(|_| *rng.pick(&alpha)).collect();
		c.unescape("random", &s);
	}
}

fn replay(c: &mut Ctx, path: &std::path::Path) {
	let Ok(text) = std::fs::read_to_string(path) else { return };
	let Ok(v) = serde_json::from_str::<Value>(&text) else { return };
	let op = v.get("op").cloned().unwrap_or(Value::Null);
	match op.get("op").and_then(Value::as_str) {
		Some("c06.agree") => {
			let src = op["src"].as_str().unwrap_or("");
			let base = op.get("base").and_then(Value::as_str).map(str::to_string);
			c.agree("replay", src, base.as_deref(), false);
		}
		Some("c06.pratt") => {
			let toks: Vec<String> = op["toks"]
				.as_array()
				.map(|a| a.iter().filter_map(|t| t.as_str().map(str::to_string)).collect())
				.unwrap_or_default();
			let want = op.get("want").and_then(Value::as_str).map(str::to_string);
			c.pratt("replay", &toks, want.as_deref());
		}
		Some("c06.number") | Some("c06.verbatim") => {
			let s: String = op["s"]
				.as_array()
				.map(|a| a.iter().filter_map(|t| t.as_u64().and_then(|u| char::from_u32(u as u32))).collect())
				.unwrap_or_default();
			if op["op"] == "c06.number" {
				c.number("replay", &s, op.get("lit").cloned());
			} else {
				let q = op["q"].as_u64().and_then(|u| char::from_u32(u as u32)).unwrap_or('"');
				let content: Option<String> = op.get("content").and_then(Value::as_array).map(|a| {
					a.iter().filter_map(|t| t.as_u64().and_then(|u| char::from_u32(u as u32))).collect()
				});
				c.verbatim("replay", q, &s, content.as_deref());
			}
		}
		Some("c06.suffix") => {
			let src = op["_src"].as_str().unwrap_or("");
			let (ir, _) = run_ir(src);
			let (peg, _) = run_peg(src);
			c.w.case(op.clone(), json!({"ir": ir, "peg": peg}));
		}
		Some("c06.strip") => {
			let src = op["_src"].as_str().unwrap_or("");
			let base_src: String = op["base"]
				.as_array()
				.map(|a| a.iter().filter_map(|l| l[1].as_str()).collect::<Vec<_>>().join(" "))
				.unwrap_or_default();
			let (base, _) = run_ir(&base_src);
			c.strip(src, &base_src, &base);
		}
		Some("c06.unescape") => {
			let s: String = op["s"]
				.as_array()
				.map(|a| a.iter().filter_map(|t| t.as_u64().and_then(|u| char::from_u32(u as u32))).collect())
				.unwrap_or_default();
			c.unescape("replay", &s);
		}
		_ => {}
	}
}

pub fn run(opts: &Opts) {
	let mut c = Ctx {
		w: CaseWriter::new(&opts.out),
		hist: BTreeMap::new(),
		all_reject: 0,
		seen: std::collections::HashSet::new(),
	};
	let mut rng = Rng::new(opts.seed);
	let (full_len, max_len) = if opts.thorough() { (5, 7) } else { (4, 5) };
	if let Some(p) = &opts.replay {
		replay(&mut c, p);
	} else {
		operators(&mut c, &mut rng, if opts.thorough() { 40_000 } else { 4_000 });
		literals(&mut c);
		unescapes(&mut c, &mut rng, if opts.thorough() { 60_000 } else { 6_000 });
		suffixes(&mut c, if opts.thorough() { 4 } else { 3 });
		// own stream, so that the corpus of the older generators is unchanged for a given seed
		let mut rng2 = Rng::new(opts.seed ^ 0x6c69_7465_7261_6c73);
		numbers(&mut c, &mut rng2, if opts.thorough() { 6 } else { 5 }, if opts.thorough() { 30_000 } else { 3_000 });
		verbatims(&mut c, &mut rng2, if opts.thorough() { 6 } else { 5 }, if opts.thorough() { 10_000 } else { 1_000 });
		mutations(&mut c, &mut rng, if opts.thorough() { 600 } else { 60 });
		trivia(&mut c, &mut rng, if opts.thorough() { 200 } else { 20 });
		// own stream again (the corpora above are unchanged for a given seed)
		let mut rng3 = Rng::new(opts.seed ^ 0x7061_7261_6d73);
		param_lists(&mut c, &mut rng3, if opts.thorough() { 4_000 } else { 400 });
		lexical_errors_at_boundaries(&mut c, &mut rng3, if opts.thorough() { 400 } else { 60 });
		exhaustive(&mut c, full_len, max_len);
	}
	let n = c.w.n;
	let hist = c.hist.clone();
	let all_reject = c.all_reject;
	c.w.finish(
		json!({"engine":"c06","cases":n,
			"rule": format!("all token sequences over a {}-token alphabet to length {full_len}, viable prefixes (error at end of input in either evaluator parser) to length {max_len}; 19x19 operator pairs in both association positions, 4x19 unary placements, raw pairs/triples, random ASTs printed with minimal and redundant parentheses; {} programs x single-token delete/replace/insert; trivia insertion at every boundary; literal/escape/text-block/number/reserved-word/trailing-comma forms; unescape on all \\xHH, \\u edge classes and pairs; number texts: every string over 0 1 9 _ . e E + - a starting with a digit to a length bound, random structured literals (digit groups, fraction, exponent, boundary exponents) re-rendered by the Lean Spec, rounding/range boundaries; verbatim strings: every body over q q' a \\\\ é to a length bound for both quotes, random contents rendered with doubled quotes; lexeme streams of the trivia corpus; every chain of up to 3 (thorough 4) suffixes out of 13 forms (field, index, 5 slice shapes, 3 call shapes, 2 object extensions) after 3 base operands; parameter lists of length 1..=5 without duplicates, with one name at every pair of positions and three times, 7 placements of defaults, at {} sites (function literal, local f(..), local f = function(..), methods, object-local functions, argument, default of an outer parameter, object comprehension local), plus random lists up to 12 parameters; {} lexical-error fragments (one per comment / string / text-block / number error kind of the lexer, with well-formed controls) at every token boundary of {} host programs in 3 spacings and at the end / behind closing brackets / sampled boundaries of the {} programs", ALPHABET.len(), PROGRAMS.len(), PARAM_SITES.len(), LEX_FRAGMENTS.len(), LEX_HOSTS.len(), PROGRAMS.len()),
			"sequences_rejected_by_all_three_not_emitted": all_reject,
			"histogram": hist}),
		&opts.out,
	);
}
