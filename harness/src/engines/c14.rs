//! C14 — YAML / TOML / Python / XML / INI manifestation denotes the same data.
//!
//! Runs the REAL writers (through the `std.manifest*` builtins of a real evaluator state and
//! through the CLI format constructors `YamlFormat::cli`, `TomlFormat::cli`, `XmlJsonmlFormat::cli`,
//! `IniFormat::cli`, `YamlStreamFormat::cli`) and writes
//!   * `man.tok`    token cases: the text emitted for ONE key / string in each lexical position
//!                  (cut out of a one-element document) next to the source string; the Lean driver
//!                  answers with the model's token and with what the independent decoder of that
//!                  format reads back from the implementation's token;
//!   * `man.stream` YAML stream framing of opaque documents (`YamlStreamFormat` over `StringFormat`);
//!   * `man.dom`    acceptance / rejection of values in and outside of each format's domain;
//!   * `obs.jsonl`  whole documents (source value as JSON + emitted text) for the external parsers
//!                  driven by checks/props/C14.py (PyYAML, tomllib, ast, xml.etree, configparser).
use std::{
	collections::BTreeMap,
	fs::File,
	io::{BufWriter, Write},
};

use jrsonnet_evaluator::{
	manifest::{ManifestFormat, StringFormat, YamlStreamFormat},
	trace::PathResolver,
	val::{ArrValue, NumValue},
	FileImportResolver, ObjValue, State, Val,
};
use jrsonnet_stdlib::{
	ContextInitializer, IniFormat, TomlFormat, XmlJsonmlFormat, YamlFormat,
};
use serde_json::{json, Value};

use crate::common::{guarded, CaseWriter, Opts, Rng};

#[derive(Clone, Debug, PartialEq)]
enum G {
	Null,
	Bool(bool),
	Num(f64),
	Str(String),
	Arr(Vec<G>),
	Obj(Vec<(String, G)>),
	Func,
}

impl G {
	/// plain JSON (for the Python side); functions only occur in domain cases
	fn pj(&self) -> Value {
		match self {
			G::Null => Value::Null,
			G::Bool(b) => json!(b),
			G::Num(n) => json!(n),
			G::Str(s) => json!(s),
			G::Arr(xs) => Value::Array(xs.iter().map(G::pj).collect()),
			G::Obj(kvs) => Value::Object(kvs.iter().map(|(k, v)| (k.clone(), v.pj())).collect()),
			G::Func => json!({"$func": true}),
		}
	}
	/// tagged JSON (for the Lean driver): object fields as a list of pairs in source order
	fn lj(&self) -> Value {
		match self {
			G::Null => json!({"t":"z"}),
			G::Bool(b) => json!({"t":"b","b":b}),
			G::Num(n) => json!({"t":"n","r":format!("{n}")}),
			G::Str(s) => json!({"t":"s","s":s}),
			G::Arr(xs) => json!({"t":"a","xs":xs.iter().map(G::lj).collect::<Vec<_>>()}),
			G::Obj(kvs) => json!({"t":"o","kv":kvs.iter().map(|(k, v)| json!([k, v.lj()])).collect::<Vec<_>>()}),
			G::Func => json!({"t":"f"}),
		}
	}
	/// canonical JSON for comparing data: object members sorted by key (code point order),
	/// numbers as `Display for f64` text
	fn cj(&self) -> Value {
		match self {
			G::Null => Value::Null,
			G::Bool(b) => json!(b),
			G::Num(n) => json!({"n": format!("{n}")}),
			G::Str(s) => json!(s),
			G::Arr(xs) => Value::Array(xs.iter().map(G::cj).collect()),
			G::Obj(kvs) => {
				let mut m: Vec<(&String, Value)> = kvs.iter().map(|(k, v)| (k, v.cj())).collect();
				m.sort_by(|a, b| a.0.chars().cmp(b.0.chars()));
				json!({"o": m.into_iter().map(|(k, v)| json!([k, v])).collect::<Vec<_>>()})
			}
			G::Func => json!({"f": true}),
		}
	}
	fn size(&self) -> usize {
		match self {
			G::Str(s) => 1 + s.chars().count() / 4,
			G::Arr(xs) => 1 + xs.iter().map(G::size).sum::<usize>(),
			G::Obj(kvs) => 1 + kvs.iter().map(|(k, v)| 1 + k.chars().count() / 4 + v.size()).sum::<usize>(),
			_ => 1,
		}
	}
}

struct Env {
	state: State,
	ci: ContextInitializer,
	func: Val,
}

impl Env {
	fn new() -> Self {
		let ci = ContextInitializer::new(PathResolver::new_cwd_fallback());
		let mut s = State::builder();
		s.context_initializer(ci.clone())
			.import_resolver(FileImportResolver::default());
		let state = s.build();
		let func = state
			.evaluate_snippet("<c14>".to_owned(), "function(x) x".to_owned())
			.expect("function value");
		Self { state, ci, func }
	}
	fn val(&self, g: &G) -> Val {
		match g {
			G::Null => Val::Null,
			G::Bool(b) => Val::Bool(*b),
			G::Num(n) => Val::Num(NumValue::new(*n).expect("finite")),
			G::Str(s) => Val::from(s.as_str()),
			G::Arr(xs) => Val::Arr(ArrValue::eager(xs.iter().map(|x| self.val(x)).collect())),
			G::Obj(kvs) => {
				let mut b = ObjValue::builder();
				for (k, v) in kvs {
					b.field(k.as_str()).value(self.val(v));
				}
				Val::Obj(b.build())
			}
			G::Func => self.func.clone(),
		}
	}
	/// evaluate `code` with `std.extVar("v")` bound to `g`; the result must be a string
	fn std_call(&self, code: &str, g: &G) -> Out {
		let v = self.val(g);
		self.ci.add_ext_var("v".into(), v);
		match guarded(|| self.state.evaluate_snippet("<c14>".to_owned(), code.to_owned())) {
			Ok(Ok(Val::Str(s))) => Out::Ok(s.to_string()),
			Ok(Ok(_)) => Out::Err("notstring".into()),
			Ok(Err(e)) => Out::Err(format!("{}", e.error())),
			Err(p) => Out::Panic(p),
		}
	}
	fn direct(&self, fmt: &dyn ManifestFormat, g: &G) -> Out {
		let v = self.val(g);
		match guarded(|| v.manifest(fmt)) {
			Ok(Ok(s)) => Out::Ok(s),
			Ok(Err(e)) => Out::Err(format!("{}", e.error())),
			Err(p) => Out::Panic(p),
		}
	}
}

/// tagged JSON of the REAL value: object fields in the order the writers iterate them
fn lj_real(v: &Val, func_ok: bool) -> Value {
	match v {
		Val::Null => json!({"t":"z"}),
		Val::Bool(b) => json!({"t":"b","b":b}),
		Val::Num(n) => json!({"t":"n","r":format!("{n}")}),
		Val::Str(s) => json!({"t":"s","s":s.to_string()}),
		Val::Arr(a) => json!({"t":"a","xs":a.iter().map(|x| lj_real(&x.expect("eager"), func_ok)).collect::<Vec<_>>()}),
		Val::Obj(o) => json!({"t":"o","kv":o.fields().into_iter().map(|k| {
			let x = o.get(k.clone()).expect("eager").expect("field exists");
			json!([k.to_string(), lj_real(&x, func_ok)])
		}).collect::<Vec<_>>()}),
		Val::Func(_) => json!({"t":"f"}),
		#[allow(unreachable_patterns)]
		_ => json!({"t":"f"}),
	}
}

#[derive(Clone, Debug)]
enum Out {
	Ok(String),
	Err(String),
	Panic(String),
}
impl Out {
	fn json(&self) -> Value {
		match self {
			Out::Ok(s) => json!({"out": s}),
			Out::Err(m) => json!({"err": true, "_msg": m}),
			Out::Panic(p) => json!({"panic": p}),
		}
	}
}

/// one way of calling a writer
#[derive(Clone, Debug)]
enum Via {
	YamlStd { iao: bool, qk: bool },
	YamlCli { pad: usize },
	YamlStreamStd { iao: bool, cde: bool, qk: bool },
	YamlStreamCli { pad: usize },
	TomlStd { indent: String },
	TomlCli { pad: usize },
	Python,
	PythonVars,
	XmlStd,
	XmlCli,
	IniStd,
	IniCli,
}
impl Via {
	fn fmt(&self) -> &'static str {
		match self {
			Via::YamlStd { .. } | Via::YamlCli { .. } => "yaml",
			Via::YamlStreamStd { .. } | Via::YamlStreamCli { .. } => "yamlstream",
			Via::TomlStd { .. } | Via::TomlCli { .. } => "toml",
			Via::Python => "python",
			Via::PythonVars => "pyvars",
			Via::XmlStd | Via::XmlCli => "xml",
			Via::IniStd | Via::IniCli => "ini",
		}
	}
	fn json(&self) -> Value {
		match self {
			Via::YamlStd { iao, qk } => json!({"via":"std","indent_array_in_object":iao,"quote_keys":qk}),
			Via::YamlCli { pad } => json!({"via":"cli","padding":pad}),
			Via::YamlStreamStd { iao, cde, qk } => {
				json!({"via":"std","indent_array_in_object":iao,"c_document_end":cde,"quote_keys":qk})
			}
			Via::YamlStreamCli { pad } => json!({"via":"cli","padding":pad,"c_document_end":true}),
			Via::TomlStd { indent } => json!({"via":"std","indent":indent}),
			Via::TomlCli { pad } => json!({"via":"cli","padding":pad}),
			Via::Python | Via::PythonVars | Via::XmlStd | Via::IniStd => json!({"via":"std"}),
			Via::XmlCli | Via::IniCli => json!({"via":"cli"}),
		}
	}
	fn run(&self, env: &Env, g: &G) -> Out {
		let b = |x: bool| if x { "true" } else { "false" };
		match self {
			Via::YamlStd { iao, qk } => env.std_call(
				&format!("std.manifestYamlDoc(std.extVar('v'), {}, {})", b(*iao), b(*qk)),
				g,
			),
			Via::YamlCli { pad } => env.direct(&YamlFormat::cli(*pad), g),
			Via::YamlStreamStd { iao, cde, qk } => env.std_call(
				&format!(
					"std.manifestYamlStream(std.extVar('v'), {}, {}, {})",
					b(*iao),
					b(*cde),
					b(*qk)
				),
				g,
			),
			Via::YamlStreamCli { pad } => env.direct(&YamlStreamFormat::cli(YamlFormat::cli(*pad)), g),
			Via::TomlStd { indent } => {
				if indent == "  " {
					env.std_call("std.manifestToml(std.extVar('v'))", g)
				} else {
					env.std_call(
						&format!("std.manifestTomlEx(std.extVar('v'), {})", serde_json::to_string(indent).unwrap()),
						g,
					)
				}
			}
			Via::TomlCli { pad } => env.direct(&TomlFormat::cli(*pad), g),
			Via::Python => env.std_call("std.manifestPython(std.extVar('v'))", g),
			Via::PythonVars => env.std_call("std.manifestPythonVars(std.extVar('v'))", g),
			Via::XmlStd => env.std_call("std.manifestXmlJsonml(std.extVar('v'))", g),
			Via::XmlCli => env.direct(&XmlJsonmlFormat::cli(), g),
			Via::IniStd => env.std_call("std.manifestIni(std.extVar('v'))", g),
			Via::IniCli => env.direct(&IniFormat::cli(), g),
		}
	}
}

// ---------------------------------------------------------------------------------------------
// hostile strings

/// YAML 1.1 keywords, number / date look-alikes, indicator strings
const WORDS: &[&str] = &[
	"", "true", "True", "TRUE", "tRuE", "false", "False", "yes", "Yes", "YES", "no", "No", "NO", "on", "On", "ON",
	"off", "Off", "OFF", "y", "Y", "n", "N", "null", "Null", "NULL", "nul", "~", ".nan", ".NaN", ".NAN", ".inf",
	".Inf", "-.inf", "-.INF", "+.inf", "inf", "nan", "NaN", "Infinity", "-", "--", "---", "----", "...", "..",
	".", "-a", "a-", "---a", "...a", "0", "-0", "1", "-1", "+1", "12", "007", "017", "0o17", "1_000", "_",
	"__", "_1", "0b1", "0b", "-0b1", "0B1", "0b_", "0b2", "b0", "0x1f", "0x", "-0x1", "-0x", "0X1F", "0xg",
	"0xdead", "dead", "abcdef", "x0", "1.5", "-1.5", ".5", "5.", "-.5", "1e3", "1E3", "1e-3", "e", "E", "e3",
	"1e", "e-", "-e", "1e1e", "1.2.3", "1.0e--1", "1_0.5", "1-2", "1-2-3", "2001-01-01", "2001-1-1",
	"20-1-1", "--1", "1--", "-1-", "1:30", "1:30:00", "190:20:30.15", "<<", "=", "a b", "a: b", "a:b",
	"a :b", "a #b", "a# b", "#a", "# a", "- a", "-\ta", "? a", "?a", ": a", ":a", "[a]", "[", "]", "{a}", "{",
	"}", "a,b", ",", "&a", "*a", "!a", "!!str a", "|", "|a", "|-", ">", ">a", "%a", "@a", "`a", "'a'", "'",
	"''", "\"a\"", "\"", "\"\"", "a\\b", "\\", "\\n", "\\u0041", "a/b", "/", "a.b", "a_b", "key", "Key-1",
	"a-b_c", " a", "a ", " ", "  ", "\t", "\ta", "a\t", "a=b", "a = b", "[a.b]", "a.b.c", "a\"b", "a'b",
	"true ", " true", "1 ", "t", "f", "T", "F", "None", "True", "k", "x", "section", "main",
	// shortest members of the YAML 1.1 int / float patterns (length guards of bare_safe)
	"0xA", "0x1", "0xf", "-0xA", "0b0", "0b1_", "-0b0", "0_0", "00", "1_0", "0.", "0.0", ".0", "-.0", "1.e+3",
	"0.e-1", ".1e+1", "1.2.3", "0o7", "-0o17", "0x_", "0b_1", "1_", "-1_", "_1_", "0.5e", "1e+3", "2001-01-01a",
];

/// single characters: format-hostile ASCII, controls, U+007F, C1, non-ASCII, non-BMP
const PIECES: &[&str] = &[
	"\"", "'", "\\", "#", ":", "-", "=", "[", "]", "{", "}", ",", "&", "*", "!", "|", ">", "<", "%", "@", "`",
	"?", ";", "$", "~", "+", "/", ".", "_", " ", "\t", "\r", "\u{0}", "\u{1}", "\u{8}", "\u{b}", "\u{c}",
	"\u{1b}", "\u{1f}", "\u{7f}", "\u{80}", "\u{85}", "\u{9f}", "\u{a0}", "\u{e9}", "\u{df}", "\u{65e5}",
	"\u{2028}", "\u{2029}", "\u{feff}", "\u{fffd}", "\u{ffff}", "\u{1f600}", "\u{10ffff}", "\u{d7ff}",
	"\u{e000}", "a", "Z", "0", "9", "e", "x", "b", "o", "k",
];

/// printable, YAML-block-scalar-safe pieces (no controls / U+007F / C1 / LS / PS / BOM / non-characters)
const SAFE_PIECES: &[&str] = &[
	"\"", "'", "\\", "#", ":", "-", "=", "[", "]", "{", "}", ",", "&", "*", "!", "|", ">", "<", "%", "@", "`",
	"?", ";", "~", "+", "/", ".", "_", "a", "Z", "0", "e", "\u{e9}", "\u{65e5}", "\u{1f600}", "\u{a0}", "key: v",
	"- x", "# c", "---", "...", "true", "1",
];

fn hostile(rng: &mut Rng, newline: bool) -> String {
	match rng.below(10) {
		0..=3 => (*rng.pick(WORDS)).to_string(),
		4 | 5 => (*rng.pick(PIECES)).to_string(),
		_ => {
			let n = 1 + rng.below(5);
			let mut s = String::new();
			for _ in 0..n {
				match rng.below(8) {
					0 | 1 => s.push_str(*rng.pick(WORDS)),
					2 if newline => s.push('\n'),
					_ => s.push_str(*rng.pick(PIECES)),
				}
			}
			s
		}
	}
}

/// a multi-line string of the block-scalar-safe class: 2..4 non-empty lines of printable
/// characters that neither start nor end with white space, at most one trailing line feed
fn block_safe(rng: &mut Rng) -> String {
	let n = 2 + rng.below(3);
	let mut lines = Vec::new();
	for _ in 0..n {
		let k = 1 + rng.below(4);
		let mut l = String::new();
		for j in 0..k {
			if j != 0 && rng.chance(1, 3) {
				l.push(' ');
			}
			l.push_str(*rng.pick(SAFE_PIECES));
		}
		lines.push(l);
	}
	let mut s = lines.join("\n");
	if rng.chance(1, 2) {
		s.push('\n');
	}
	s
}

#[derive(Clone, Copy)]
struct GenCfg {
	null: bool,
	/// strings with a line feed: 0 = none, 1 = only the block-scalar-safe class, 2 = anything
	multiline: u8,
	/// keys limited to Python identifiers at the top level (PythonVars)
	depth: usize,
}

fn gen_str(rng: &mut Rng, cfg: GenCfg) -> String {
	match cfg.multiline {
		1 if rng.chance(1, 6) => block_safe(rng),
		2 => hostile(rng, true),
		_ => hostile(rng, false),
	}
}

const NUMS: &[f64] = &[
	0.0, 1.0, -1.0, 42.0, 1.5, -0.25, 0.1, 1e-7, 123456789012.0, 9007199254740991.0, -9007199254740991.0, 2.5e10,
	3.0e-5, 1e15,
];

fn gen_val(rng: &mut Rng, depth: usize, cfg: GenCfg) -> G {
	let top = if depth == 0 { 6 } else { 9 };
	match rng.below(top) {
		0 if cfg.null => G::Null,
		0 | 1 => G::Bool(rng.chance(1, 2)),
		2 => G::Num(*rng.pick(NUMS)),
		3 | 4 | 5 => G::Str(gen_str(rng, cfg)),
		6 => G::Arr((0..rng.below(4)).map(|_| gen_val(rng, depth - 1, cfg)).collect()),
		_ => gen_obj(rng, depth - 1, cfg),
	}
}

fn gen_obj(rng: &mut Rng, depth: usize, cfg: GenCfg) -> G {
	let n = rng.below(4);
	let mut kvs: Vec<(String, G)> = Vec::new();
	for _ in 0..n {
		// keys never go to block scalars, any hostile string (with line feeds) is fine
		let k = hostile(rng, true);
		if kvs.iter().any(|(k2, _)| *k2 == k) {
			continue;
		}
		kvs.push((k, gen_val(rng, depth, cfg)));
	}
	G::Obj(kvs)
}

/// TOML-shaped documents: sections, arrays of tables, inline tables, nested arrays
fn gen_toml(rng: &mut Rng, depth: usize) -> G {
	let cfg = GenCfg { null: false, multiline: 2, depth };
	let n = rng.below(5);
	let mut kvs: Vec<(String, G)> = Vec::new();
	for _ in 0..n {
		let k = hostile(rng, true);
		if kvs.iter().any(|(k2, _)| *k2 == k) {
			continue;
		}
		let v = match rng.below(8) {
			0 | 1 if depth > 0 => gen_toml(rng, depth - 1),
			2 if depth > 0 => G::Arr((0..1 + rng.below(3)).map(|_| gen_toml(rng, depth - 1)).collect()),
			3 => G::Arr((0..rng.below(4)).map(|_| gen_val(rng, 1, cfg)).collect()),
			_ => gen_val(rng, depth.min(2), cfg),
		};
		kvs.push((k, v));
	}
	G::Obj(kvs)
}

const IDENTS: &[&str] = &["a", "b", "_x", "x1", "Key", "snake_case", "CONST", "t", "v2"];
const XML_NAMES: &[&str] = &["a", "b", "item", "x-y", "_u", "t1", "Tag", "v.w"];

fn xml_ok(s: &str) -> bool {
	s.chars().all(|c| matches!(c, '\t' | '\n' | '\r' | '\u{20}'..='\u{d7ff}' | '\u{e000}'..='\u{fffd}' | '\u{10000}'..='\u{10ffff}'))
}
fn xml_str(rng: &mut Rng) -> String {
	loop {
		let s = hostile(rng, true);
		if xml_ok(&s) {
			return s;
		}
	}
}
fn gen_jsonml(rng: &mut Rng, depth: usize) -> G {
	let mut xs = vec![G::Str((*rng.pick(XML_NAMES)).to_string())];
	if rng.chance(2, 3) {
		let mut kvs: Vec<(String, G)> = Vec::new();
		for _ in 0..rng.below(3) {
			let k = (*rng.pick(XML_NAMES)).to_string();
			if kvs.iter().any(|(k2, _)| *k2 == k) {
				continue;
			}
			let v = match rng.below(6) {
				0 => G::Num(*rng.pick(NUMS)),
				1 => G::Bool(rng.chance(1, 2)),
				_ => G::Str(xml_str(rng)),
			};
			kvs.push((k, v));
		}
		xs.push(G::Obj(kvs));
	}
	for _ in 0..rng.below(4) {
		if depth > 0 && rng.chance(1, 2) {
			xs.push(gen_jsonml(rng, depth - 1));
		} else {
			xs.push(G::Str(xml_str(rng)));
		}
	}
	G::Arr(xs)
}

const INI_KEYS: &[&str] = &["a", "key", "k.1", "x-y", "under_score", "UPPER", "a b", "0"];
const INI_VALS: &[&str] = &[
	"v", "", "a b", "1", "true", "x=y", "a:b", "a # b", "a ; b", "[x]", "\"q\"", "'q'", "\\", "%(a)s", "\u{e9}\u{65e5}",
	"\u{1f600}", "a\tb", "0x1f", "yes", "\u{7f}",
];
fn gen_ini_body(rng: &mut Rng) -> G {
	let mut kvs: Vec<(String, G)> = Vec::new();
	for _ in 0..rng.below(4) {
		let k = (*rng.pick(INI_KEYS)).to_string();
		if kvs.iter().any(|(k2, _)| *k2 == k) {
			continue;
		}
		let scalar = |rng: &mut Rng| match rng.below(6) {
			0 => G::Num(*rng.pick(NUMS)),
			1 => G::Bool(rng.chance(1, 2)),
			_ => G::Str((*rng.pick(INI_VALS)).to_string()),
		};
		let v = if rng.chance(1, 4) {
			G::Arr((0..1 + rng.below(3)).map(|_| scalar(rng)).collect())
		} else {
			scalar(rng)
		};
		kvs.push((k, v));
	}
	G::Obj(kvs)
}
fn gen_ini(rng: &mut Rng) -> G {
	let mut top: Vec<(String, G)> = Vec::new();
	if rng.chance(1, 2) {
		top.push(("main".into(), gen_ini_body(rng)));
	}
	let mut secs: Vec<(String, G)> = Vec::new();
	for _ in 0..rng.below(4) {
		let k = (*rng.pick(&["s", "sec 1", "a.b", "DEFAULTS", "x-y", "S"])).to_string();
		if secs.iter().any(|(k2, _)| *k2 == k) {
			continue;
		}
		secs.push((k, gen_ini_body(rng)));
	}
	top.push(("sections".into(), G::Obj(secs)));
	G::Obj(top)
}

// ---------------------------------------------------------------------------------------------

fn strip<'a>(out: &'a Out, prefix: &str, suffix: &str) -> Option<&'a str> {
	match out {
		Out::Ok(s) => s.strip_prefix(prefix).and_then(|s| s.strip_suffix(suffix)),
		_ => None,
	}
}

struct Obs {
	f: BufWriter<File>,
	n: usize,
}
impl Obs {
	fn put(&mut self, via: &Via, g: &G, out: &Out) {
		// the CLI prints the manifestation followed by a line feed (cmds/jrsonnet: println!)
		let cli_out;
		let out = match (via, out) {
			(
				Via::YamlCli { .. } | Via::YamlStreamCli { .. } | Via::TomlCli { .. } | Via::XmlCli | Via::IniCli,
				Out::Ok(s),
			) => {
				cli_out = Out::Ok(format!("{s}\n"));
				&cli_out
			}
			_ => out,
		};
		let line = json!({"fmt": via.fmt(), "opts": via.json(), "v": g.pj(), "size": g.size(),
			"res": out.json()});
		writeln!(self.f, "{line}").expect("obs");
		self.n += 1;
	}
}

pub fn run(opts: &Opts) {
	let mut w = CaseWriter::new(&opts.out);
	let mut obs = Obs {
		f: BufWriter::new(File::create(opts.out.join("obs.jsonl")).expect("obs.jsonl")),
		n: 0,
	};
	let mut rng = Rng::new(opts.seed);
	let env = Env::new();
	let mut hist: BTreeMap<String, usize> = BTreeMap::new();
	let mut bump = |k: &str| *hist.entry(k.to_string()).or_insert(0) += 1;
	let scale = if opts.thorough() { 8 } else { 1 };

	// ---- 1. token cases -----------------------------------------------------------------
	let mut strings: Vec<String> = WORDS.iter().map(|s| (*s).to_string()).collect();
	strings.extend(PIECES.iter().map(|s| (*s).to_string()));
	for p in PIECES {
		strings.push(format!("a{p}b"));
		strings.push(format!("{p}{p}"));
	}
	strings.push("a\nb".into());
	strings.push("a\nb\n".into());
	strings.push("\n".into());
	for _ in 0..400 * scale {
		strings.push(hostile(&mut rng, true));
	}
	for _ in 0..40 * scale {
		strings.push(block_safe(&mut rng));
	}
	strings.sort();
	strings.dedup();
	let yaml_cli = YamlFormat::cli(2);
	for s in &strings {
		let sv = G::Str(s.clone());
		let key0 = G::Obj(vec![(s.clone(), G::Num(0.0))]);
		let arr1 = G::Arr(vec![sv.clone()]);
		let mut tok = |kind: &str, o: Option<&str>, raw: &Out, qk: bool| {
			let op = json!({"op":"man.tok","kind":kind,"s":s,"qk":qk,"tok":o,"size":s.chars().count()});
			let ans = match (o, raw) {
				(Some(t), _) => json!({"out": t, "back": s}),
				(None, Out::Panic(p)) => json!({"panic": p}),
				(None, Out::Err(m)) => json!({"err": true, "_msg": m}),
				(None, Out::Ok(t)) => json!({"unexpected_frame": t}),
			};
			w.case(op, ans);
		};
		// TOML
		let o = env.std_call("std.manifestTomlEx(std.extVar('v'), '')", &key0);
		tok("toml.key", strip(&o, "", " = 0"), &o, false);
		let o = env.std_call("std.manifestTomlEx(std.extVar('v'), '')", &G::Obj(vec![("k".into(), sv.clone())]));
		tok("toml.str", strip(&o, "k = ", ""), &o, false);
		let o = env.std_call(
			"std.manifestTomlEx(std.extVar('v'), '')",
			&G::Obj(vec![(s.clone(), G::Obj(vec![("x".into(), G::Num(0.0))]))]),
		);
		tok("toml.hdr", strip(&o, "[", "]\nx = 0"), &o, false);
		let o = env.std_call(
			"std.manifestTomlEx(std.extVar('v'), '')",
			&G::Obj(vec![("k".into(), G::Arr(vec![G::Num(1.0), G::Obj(vec![(s.clone(), G::Num(0.0))])]))]),
		);
		tok("toml.inl", strip(&o, "k = [\n1,\n{ ", " = 0 }\n]"), &o, false);
		// YAML
		for qk in [true, false] {
			let o = env.std_call(
				&format!("std.manifestYamlDoc(std.extVar('v'), false, {})", if qk { "true" } else { "false" }),
				&key0,
			);
			tok("yaml.key", strip(&o, "", ": 0"), &o, qk);
		}
		let o = env.direct(&yaml_cli, &key0);
		tok("yaml.key", strip(&o, "", ": 0"), &o, false);
		let o = env.std_call("std.manifestYamlDoc(std.extVar('v'))", &arr1);
		tok("yaml.str.std", strip(&o, "- ", ""), &o, true);
		let o = env.direct(&yaml_cli, &arr1);
		tok("yaml.str.cli", strip(&o, "- ", ""), &o, false);
		// Python
		let o = env.std_call("std.manifestPython(std.extVar('v'))", &sv);
		tok("py.str", strip(&o, "", ""), &o, false);
		let o = env.std_call("std.manifestPython(std.extVar('v'))", &key0);
		tok("py.str", strip(&o, "{", ": 0}"), &o, false);
		// XML
		let o = env.std_call("std.escapeStringXML(std.extVar('v'))", &sv);
		tok("xml.std", strip(&o, "", ""), &o, false);
		let o = env.std_call("std.manifestXmlJsonml(std.extVar('v'))", &G::Arr(vec![G::Str("a".into()), sv.clone()]));
		tok("xml.text", strip(&o, "<a>", "</a>"), &o, false);
		let o = env.std_call(
			"std.manifestXmlJsonml(std.extVar('v'))",
			&G::Arr(vec![G::Str("a".into()), G::Obj(vec![("k".into(), sv.clone())])]),
		);
		tok("xml.attr", strip(&o, "<a k=\"", "\"></a>"), &o, false);
		bump("tok.strings");
	}

	// ---- 2. YAML stream framing over opaque documents -------------------------------------
	let doc_pool: &[&str] = &["a: 1", "\"x\"", "- 1\n- 2", "|\n  a\n  b", "{}", "null", "---a: 1", "...: 1", "k:\n  - ---\n  - ...", ""];
	for n in 0..5usize {
		for rep in 0..(if n == 0 { 1 } else { 6 * scale }) {
			let docs: Vec<String> = (0..n).map(|_| (*rng.pick(doc_pool)).to_string()).collect();
			let g = G::Arr(docs.iter().map(|d| G::Str(d.clone())).collect());
			for (cde, nl, name) in [(true, true, "std"), (false, true, "std"), (true, false, "cli")] {
				let o = if name == "std" {
					env.direct(&YamlStreamFormat::std_yaml_stream(StringFormat, cde), &g)
				} else {
					env.direct(&YamlStreamFormat::cli(StringFormat), &g)
				};
				let op = json!({"op":"man.stream","docs":docs,"cde":cde,"nl":nl,
					"tok": match &o { Out::Ok(s) => json!(s), _ => Value::Null }, "size": n, "_rep": rep});
				let ans = match &o {
					Out::Ok(s) => json!({"out": s, "back": docs}),
					other => other.json(),
				};
				w.case(op, ans);
				bump("stream");
			}
		}
	}

	// ---- 3. domain: rejection of values outside of a format's domain ------------------------
	let dom_vias = [
		Via::YamlStd { iao: false, qk: true },
		Via::YamlCli { pad: 2 },
		Via::YamlStreamStd { iao: false, cde: true, qk: true },
		Via::TomlStd { indent: "  ".into() },
		Via::TomlCli { pad: 2 },
		Via::Python,
		Via::PythonVars,
		Via::XmlStd,
		Via::XmlCli,
		Via::IniStd,
	];
	let plain = GenCfg { null: true, multiline: 0, depth: 2 };
	let mut dom_vals: Vec<G> = vec![
		G::Null,
		G::Func,
		G::Bool(true),
		G::Num(1.0),
		G::Str("s".into()),
		G::Arr(vec![]),
		G::Obj(vec![]),
		G::Arr(vec![G::Func]),
		G::Arr(vec![G::Null]),
		G::Obj(vec![("a".into(), G::Null)]),
		G::Obj(vec![("a".into(), G::Func)]),
		G::Obj(vec![("a".into(), G::Arr(vec![G::Num(1.0), G::Null]))]),
		G::Obj(vec![("a".into(), G::Arr(vec![G::Obj(vec![("b".into(), G::Null)])]))]),
		G::Obj(vec![("a".into(), G::Obj(vec![("b".into(), G::Func)]))]),
		G::Arr(vec![G::Obj(vec![("a".into(), G::Func)])]),
		// JSONML shapes
		G::Arr(vec![G::Str("a".into())]),
		G::Arr(vec![G::Num(1.0)]),
		G::Arr(vec![G::Str("a".into()), G::Num(1.0)]),
		G::Arr(vec![G::Str("a".into()), G::Null]),
		G::Arr(vec![G::Str("a".into()), G::Arr(vec![])]),
		G::Arr(vec![G::Str("a".into()), G::Obj(vec![]), G::Obj(vec![])]),
		G::Arr(vec![G::Str("a".into()), G::Obj(vec![("k".into(), G::Func)])]),
		G::Arr(vec![G::Str("a".into()), G::Obj(vec![("k".into(), G::Null)])]),
		G::Arr(vec![G::Str("a".into()), G::Arr(vec![G::Str("b".into()), G::Func])]),
		G::Arr(vec![G::Str("a".into()), G::Str("t".into()), G::Arr(vec![G::Str("b".into())])]),
		// INI shapes
		G::Obj(vec![("sections".into(), G::Obj(vec![]))]),
		G::Obj(vec![("main".into(), G::Obj(vec![("a".into(), G::Num(1.0))])), ("sections".into(), G::Obj(vec![]))]),
		G::Obj(vec![("main".into(), G::Obj(vec![]))]),
		G::Obj(vec![("main".into(), G::Num(1.0)), ("sections".into(), G::Obj(vec![]))]),
		G::Obj(vec![("sections".into(), G::Obj(vec![("s".into(), G::Num(1.0))]))]),
		G::Obj(vec![("sections".into(), G::Obj(vec![("s".into(), G::Obj(vec![("k".into(), G::Func)]))]))]),
		G::Obj(vec![("sections".into(), G::Obj(vec![("s".into(), G::Obj(vec![("k".into(), G::Arr(vec![G::Func]))]))]))]),
		G::Obj(vec![("sections".into(), G::Obj(vec![("s".into(), G::Obj(vec![("k".into(), G::Null)]))]))]),
	];
	for _ in 0..60 * scale {
		let mut g = gen_val(&mut rng, 3, plain);
		if rng.chance(1, 2) {
			g = poison(&mut rng, g);
		}
		dom_vals.push(g);
	}
	for _ in 0..20 * scale {
		let g = gen_jsonml(&mut rng, 2);
		dom_vals.push(if rng.chance(1, 2) { poison(&mut rng, g) } else { g });
		let g = gen_ini(&mut rng);
		dom_vals.push(if rng.chance(1, 2) { poison(&mut rng, g) } else { g });
		let g = gen_toml(&mut rng, 2);
		dom_vals.push(if rng.chance(1, 2) { poison(&mut rng, g) } else { g });
	}
	for g in &dom_vals {
		for via in &dom_vias {
			let o = via.run(&env, g);
			let op = json!({"op":"man.dom","fmt":via.fmt(),"v":g.lj(),"size":g.size()});
			let ans = match &o {
				Out::Ok(_) => json!({"ok": true}),
				Out::Err(m) => json!({"ok": false, "_msg": m}),
				Out::Panic(p) => json!({"panic": p}),
			};
			w.case(op, ans);
			bump(&format!("dom.{}", via.fmt()));
		}
	}

	// ---- 4. whole documents for the external parsers -----------------------------------------
	let n_docs = 150 * scale;
	let yaml_vias = [
		Via::YamlStd { iao: false, qk: true },
		Via::YamlStd { iao: true, qk: true },
		Via::YamlStd { iao: false, qk: false },
		Via::YamlStd { iao: true, qk: false },
		Via::YamlCli { pad: 1 },
		Via::YamlCli { pad: 2 },
		Via::YamlCli { pad: 3 },
		Via::YamlCli { pad: 4 },
	];
	let ycfg = GenCfg { null: true, multiline: 1, depth: 3 };
	for i in 0..n_docs {
		let g = if i < 40 {
			// every keyword / look-alike as key and as value, once
			let ws: Vec<&str> = WORDS.iter().copied().skip(i * 6).take(6).collect();
			G::Obj(ws.iter().map(|w| ((*w).to_string(), G::Arr(vec![G::Str((*w).to_string())]))).collect())
		} else {
			gen_val(&mut rng, 3, ycfg)
		};
		for via in &yaml_vias {
			let o = via.run(&env, &g);
			obs.put(via, &g, &o);
			bump("obs.yaml");
		}
	}
	let stream_vias = [
		Via::YamlStreamStd { iao: false, cde: true, qk: true },
		Via::YamlStreamStd { iao: true, cde: false, qk: false },
		Via::YamlStreamStd { iao: false, cde: false, qk: true },
		Via::YamlStreamStd { iao: true, cde: true, qk: false },
		Via::YamlStreamCli { pad: 2 },
		Via::YamlStreamCli { pad: 4 },
	];
	for i in 0..n_docs / 3 {
		let n = if i == 0 { 0 } else { 1 + rng.below(3) };
		let g = G::Arr((0..n).map(|_| gen_val(&mut rng, 2, ycfg)).collect());
		for via in &stream_vias {
			let o = via.run(&env, &g);
			obs.put(via, &g, &o);
			bump("obs.yamlstream");
		}
	}
	let toml_vias = [
		Via::TomlStd { indent: "  ".into() },
		Via::TomlStd { indent: "".into() },
		Via::TomlStd { indent: "\t".into() },
		Via::TomlStd { indent: "    ".into() },
		Via::TomlCli { pad: 0 },
		Via::TomlCli { pad: 2 },
		Via::TomlCli { pad: 4 },
	];
	for _ in 0..n_docs {
		let g = gen_toml(&mut rng, 3);
		for via in &toml_vias {
			let o = via.run(&env, &g);
			obs.put(via, &g, &o);
			bump("obs.toml");
		}
	}
	let pcfg = GenCfg { null: true, multiline: 2, depth: 3 };
	for _ in 0..n_docs {
		let g = gen_val(&mut rng, 3, pcfg);
		let o = Via::Python.run(&env, &g);
		obs.put(&Via::Python, &g, &o);
		bump("obs.python");
	}
	for _ in 0..n_docs / 3 {
		let mut kvs: Vec<(String, G)> = Vec::new();
		for _ in 0..rng.below(4) {
			let k = (*rng.pick(IDENTS)).to_string();
			if kvs.iter().any(|(k2, _)| *k2 == k) {
				continue;
			}
			kvs.push((k, gen_val(&mut rng, 2, pcfg)));
		}
		let g = G::Obj(kvs);
		let o = Via::PythonVars.run(&env, &g);
		obs.put(&Via::PythonVars, &g, &o);
		bump("obs.pyvars");
	}
	for _ in 0..n_docs {
		let g = gen_jsonml(&mut rng, 3);
		for via in [Via::XmlStd, Via::XmlCli] {
			let o = via.run(&env, &g);
			obs.put(&via, &g, &o);
			bump("obs.xml");
		}
	}
	for _ in 0..n_docs / 2 {
		let g = gen_ini(&mut rng);
		for via in [Via::IniStd, Via::IniCli] {
			let o = via.run(&env, &g);
			obs.put(&via, &g, &o);
			bump("obs.ini");
		}
	}
	obs.f.flush().expect("flush obs");

	// ---- 5. whole-writer correspondence: TOML / Python / PythonVars / INI, byte for byte -----
	{
		let o1 = |k: &str, v: G| G::Obj(vec![(k.to_string(), v)]);
		let e = || G::Obj(vec![]);
		let n1 = || G::Num(1.0);
		let mut toml_docs: Vec<G> = vec![
			e(),
			o1("a", e()),
			o1("a", o1("b", e())),
			o1("a", o1("b", o1("c", e()))),
			o1("a", G::Obj(vec![("b".into(), e()), ("c".into(), e())])),
			o1("a", G::Obj(vec![("b".into(), n1()), ("c".into(), e())])),
			o1("a", G::Arr(vec![])),
			o1("a", G::Arr(vec![e()])),
			o1("a", G::Arr(vec![e(), e()])),
			o1("a", G::Arr(vec![e(), o1("b", e())])),
			o1("a", G::Arr(vec![o1("b", G::Arr(vec![o1("c", n1())])), o1("b", G::Arr(vec![e()]))])),
			o1("a", G::Arr(vec![e(), n1()])),
			o1("a", G::Arr(vec![G::Arr(vec![]), G::Arr(vec![e()])])),
			o1("a", G::Arr(vec![n1(), G::Arr(vec![n1(), G::Str("x".into())]), e(), o1("k", e())])),
			G::Obj(vec![("a".into(), n1()), ("b".into(), o1("c", n1())), ("d".into(), G::Bool(false)), ("e".into(), o1("f", o1("g", n1())))]),
			G::Obj(vec![("".into(), o1("", o1("", n1())))]),
			G::Obj(vec![("a.b".into(), o1("c d".into(), o1("\"", G::Arr(vec![o1("x", n1())]))))]),
			o1("a", G::Null),
			o1("a", o1("b", G::Null)),
			o1("a", G::Arr(vec![o1("b", G::Func)])),
			o1("a", G::Arr(vec![G::Null])),
		];
		for _ in 0..90 * scale {
			toml_docs.push(gen_toml(&mut rng, 3));
		}
		for _ in 0..10 * scale {
			let g = gen_toml(&mut rng, 2);
			toml_docs.push(poison(&mut rng, g));
		}
		for g in &toml_docs {
			let real = env.val(g);
			let lj = lj_real(&real, true);
			for via in &toml_vias {
				let (pad, skip) = match via {
					Via::TomlStd { indent } => (indent.clone(), false),
					Via::TomlCli { pad } => (" ".repeat(*pad), true),
					_ => unreachable!(),
				};
				let o = via.run(&env, g);
				let op = json!({"op":"man.doc","fmt":"toml","pad":pad,"skip":skip,"nl":false,"v":lj,
					"tok": match &o { Out::Ok(s) => json!(s), _ => Value::Null }, "size": g.size()});
				let ans = match &o {
					Out::Ok(s) => json!({"out": s, "back": g.cj()}),
					other => other.json(),
				};
				w.case(op, ans);
				bump("doc.toml");
			}
		}
		let mut py_docs: Vec<G> = vec![e(), G::Arr(vec![]), G::Null, G::Func, G::Arr(vec![G::Func]), o1("a", G::Arr(vec![e(), G::Arr(vec![])]))];
		for _ in 0..80 * scale {
			let g = gen_val(&mut rng, 3, pcfg);
			py_docs.push(if rng.chance(1, 10) { poison(&mut rng, g) } else { g });
		}
		for g in &py_docs {
			let lj = lj_real(&env.val(g), true);
			for (via, fmt) in [(Via::Python, "python"), (Via::PythonVars, "pyvars")] {
				let o = via.run(&env, g);
				let op = json!({"op":"man.doc","fmt":fmt,"pad":"","skip":false,"nl":false,"v":lj,
					"tok": match &o { Out::Ok(s) => json!(s), _ => Value::Null }, "size": g.size()});
				let ans = match &o {
					Out::Ok(s) => json!({"out": s}),
					other => other.json(),
				};
				w.case(op, ans);
				bump(&format!("doc.{fmt}"));
			}
		}
		let mut ini_docs: Vec<G> = vec![
			G::Obj(vec![("sections".into(), e())]),
			G::Obj(vec![("main".into(), e()), ("sections".into(), e())]),
			G::Obj(vec![("main".into(), G::Null), ("sections".into(), o1("s", e()))]),
			G::Obj(vec![("main".into(), o1("a", G::Arr(vec![]))), ("sections".into(), o1("s", o1("k", G::Arr(vec![]))))]),
			G::Obj(vec![("main".into(), o1("a", G::Arr(vec![G::Arr(vec![]), e(), G::Null, o1("x", G::Arr(vec![n1(), G::Str("q\"".into())]))]))),
				("sections".into(), G::Obj(vec![("b".into(), o1("k", o1("x", G::Bool(true)))), ("a".into(), e()), ("B".into(), o1("k", G::Null))]))]),
			G::Obj(vec![("sections".into(), o1("s", o1("k", G::Func)))]),
		];
		for _ in 0..60 * scale {
			ini_docs.push(gen_ini(&mut rng));
		}
		for g in &ini_docs {
			let lj = lj_real(&env.val(g), true);
			for (via, nl) in [(Via::IniStd, true), (Via::IniCli, false)] {
				let o = via.run(&env, g);
				let op = json!({"op":"man.doc","fmt":"ini","pad":"","skip":false,"nl":nl,"v":lj,
					"tok": match &o { Out::Ok(s) => json!(s), _ => Value::Null }, "size": g.size()});
				let ans = match &o {
					Out::Ok(s) => json!({"out": s}),
					other => other.json(),
				};
				w.case(op, ans);
				bump("doc.ini");
			}
		}
	}

	let cases = w.n;
	w.finish(
		json!({"engine":"c14","cases":cases,"obs_documents":obs.n,"hist":hist,
			"rule":"token cases: every keyword/look-alike/hostile character alone, doubled and embedded + seeded compositions, in every lexical position (TOML key/string/header/inline key, YAML key (quoted, bare std, bare CLI) and string (std, CLI), Python string/key, XML text/attribute/std.escapeStringXML); stream framing over 0..4 opaque documents x 3 configurations; domain cases: hand-written shape list + seeded values with a function or null planted at a random position, x 10 writer configurations; whole documents: seeded JSON-like / TOML-shaped / JSONML / INI values x every option combination, parsed by external parsers"}),
		&opts.out,
	);
}

/// plant a function (or null) at a random position of `g`
fn poison(rng: &mut Rng, g: G) -> G {
	let bad = if rng.chance(2, 3) { G::Func } else { G::Null };
	fn go(rng: &mut Rng, g: G, bad: &G) -> G {
		match g {
			G::Arr(mut xs) if !xs.is_empty() && rng.chance(3, 4) => {
				let i = rng.below(xs.len());
				let x = std::mem::replace(&mut xs[i], G::Null);
				xs[i] = go(rng, x, bad);
				G::Arr(xs)
			}
			G::Obj(mut kvs) if !kvs.is_empty() && rng.chance(3, 4) => {
				let i = rng.below(kvs.len());
				let x = std::mem::replace(&mut kvs[i].1, G::Null);
				kvs[i].1 = go(rng, x, bad);
				G::Obj(kvs)
			}
			_ => bad.clone(),
		}
	}
	go(rng, g, &bad)
}
