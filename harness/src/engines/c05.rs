//! C05 — JSON manifestation is well-formed and faithful.
//! Generates JSON-like values (plus functions, hidden fields, inherited objects, lazily built
//! arrays), builds them as real `Val`s, sends them through every JSON-producing path of the
//! implementation and writes, per (value, path):
//!   * `json.write`  — the emitted bytes, compared byte-for-byte with the Lean writer model;
//!   * `json.read`   — the emitted bytes, read by the Lean reference reader and compared with the
//!                     canonical value (observation of the property on the implementation's output);
//!   * `json.indep`  — serde_json as independent reader of the emitted text and `std.parseJson`
//!                     as left inverse, both compared structurally with the source value.
//! Separately: `json.esc`/`json.unesc` for the string escaper over every Unicode scalar value and
//! `json.num` for the numeric-token hypothesis (`Display for f64`) over doubles of every exponent.
use std::collections::BTreeMap;

use jrsonnet_evaluator::{
	function::NativeFn,
	manifest::{escape_string_json, JsonFormat, ToStringFormat},
	typed::FromUntyped,
	val::{ArrValue, NumValue},
	ObjValue, Thunk, Val,
};
use serde_json::{json, Value};

use crate::common::{guarded, new_state, CaseWriter, Opts, Rng};

#[derive(Clone, Debug)]
pub enum G {
	Null,
	Bool(bool),
	Num(f64),
	Str(String),
	/// elements, how the array is built (0 eager, 1 lazy thunks, 2 std.map identity,
	/// 3 split and concatenated, 4 reversed twice)
	Arr(Vec<G>, u8),
	/// fields in definition order (key, hidden, value), how the object is built (0 one builder,
	/// 1 `o + {}`, 2 `{} + o`, 3 two layers `A + B`)
	Obj(Vec<(String, bool, G)>, u8),
	Func,
}

fn hex(b: &[u8]) -> String {
	let mut s = String::with_capacity(b.len() * 2);
	for x in b {
		s.push_str(&format!("{x:02x}"));
	}
	s
}

struct Env {
	func: Val,
	map_id: NativeFn!((Val) -> Val),
	rev2: NativeFn!((Val) -> Val),
	add_empty_r: NativeFn!((Val) -> Val),
	add_empty_l: NativeFn!((Val) -> Val),
	m_json: NativeFn!((Val) -> Val),
	m_min: NativeFn!((Val) -> Val),
	m_ex4: NativeFn!((Val, String, String, String) -> Val),
	m_ex2: NativeFn!((Val, String) -> Val),
	to_string: NativeFn!((Val) -> Val),
	cat_l: NativeFn!((Val) -> Val),
	cat_r: NativeFn!((Val) -> Val),
	parse_json: NativeFn!((String) -> Val),
	esc_builtin: NativeFn!((String) -> Val),
	str_cat: NativeFn!((String, String) -> Val),
}

fn num_tok(f: f64) -> Result<String, String> {
	match guarded(|| Val::Num(NumValue::new(f).expect("finite")).manifest(JsonFormat::minify())) {
		Ok(Ok(s)) => Ok(s),
		Ok(Err(e)) => Err(format!("err:{}", e.error())),
		Err(p) => Err(format!("panic:{p}")),
	}
}

impl G {
	fn json(&self) -> Value {
		match self {
			G::Null => Value::Null,
			G::Bool(b) => json!(b),
			G::Num(f) => {
				json!({"n": format!("{:016x}", f.to_bits()), "t": hex(num_tok(*f).unwrap_or_default().as_bytes())})
			}
			G::Str(s) => json!({"s": hex(s.as_bytes())}),
			G::Arr(xs, _) => json!({"a": xs.iter().map(G::json).collect::<Vec<_>>()}),
			G::Obj(fs, _) => json!({"o": fs.iter().map(|(k, h, v)| json!([hex(k.as_bytes()), h, v.json()])).collect::<Vec<_>>()}),
			G::Func => json!("f"),
		}
	}
	fn size(&self) -> usize {
		match self {
			G::Str(s) => 1 + s.len() / 8,
			G::Arr(xs, _) => 1 + xs.iter().map(G::size).sum::<usize>(),
			G::Obj(fs, _) => 1 + fs.iter().map(|(k, _, v)| 1 + k.len() / 8 + v.size()).sum::<usize>(),
			_ => 1,
		}
	}
	fn depth(&self) -> usize {
		match self {
			G::Arr(xs, _) => 1 + xs.iter().map(G::depth).max().unwrap_or(0),
			G::Obj(fs, _) => 1 + fs.iter().map(|(_, _, v)| v.depth()).max().unwrap_or(0),
			_ => 0,
		}
	}
	/// a function in a visited (non-hidden) position
	fn has_func(&self) -> bool {
		match self {
			G::Func => true,
			G::Arr(xs, _) => xs.iter().any(G::has_func),
			G::Obj(fs, _) => fs.iter().any(|(_, h, v)| !*h && v.has_func()),
			_ => false,
		}
	}
	fn build(&self, env: &Env) -> Val {
		match self {
			G::Null => Val::Null,
			G::Bool(b) => Val::Bool(*b),
			G::Num(f) => Val::Num(NumValue::new(*f).expect("finite")),
			G::Str(s) => {
				// long strings: built by concatenation (tree-shaped StrValue, flattened on manifest)
				if s.len() > 100 && s.len() % 2 == 0 {
					let mut k = s.len() / 2;
					while !s.is_char_boundary(k) {
						k += 1;
					}
					env.str_cat.call(s[..k].to_owned(), s[k..].to_owned()).expect("a+b")
				} else {
					Val::string(s.as_str())
				}
			}
			G::Func => env.func.clone(),
			G::Arr(xs, kind) => {
				let vals: Vec<Val> = xs.iter().map(|x| x.build(env)).collect();
				match kind {
					0 => Val::Arr(ArrValue::eager(vals)),
					1 => Val::Arr(ArrValue::lazy(vals.into_iter().map(Thunk::evaluated).collect())),
					2 => env.map_id.call(Val::Arr(ArrValue::eager(vals))).expect("map"),
					3 => {
						let k = vals.len() / 2;
						let b = vals[k..].to_vec();
						let a = vals[..k].to_vec();
						Val::Arr(ArrValue::extended(ArrValue::eager(a), ArrValue::eager(b)))
					}
					_ => env.rev2.call(Val::Arr(ArrValue::eager(vals))).expect("rev2"),
				}
			}
			G::Obj(fs, kind) => {
				let put = |b: &mut jrsonnet_evaluator::ObjValueBuilder, fs: &[(String, bool, G)]| {
					for (k, h, v) in fs {
						let m = b.field(k.as_str());
						let m = if *h { m.hide() } else { m };
						m.value(v.build(env));
					}
				};
				match kind {
					3 => {
						let k = fs.len() / 2;
						let mut a = ObjValue::builder();
						put(&mut a, &fs[..k]);
						let mut b = ObjValue::builder();
						put(&mut b, &fs[k..]);
						Val::Obj(b.build().extend_from(a.build()))
					}
					kind => {
						let mut b = ObjValue::builder();
						put(&mut b, fs);
						let o = Val::Obj(b.build());
						match kind {
							1 => env.add_empty_r.call(o).expect("o+{}"),
							2 => env.add_empty_l.call(o).expect("{}+o"),
							_ => o,
						}
					}
				}
			}
		}
	}
}

/// `source == read back` as JSON values: same structure, strings equal, numbers equal as doubles,
/// exactly the visible keys
fn same_serde(v: &Value, g: &G) -> bool {
	match (v, g) {
		(Value::Null, G::Null) => true,
		(Value::Bool(a), G::Bool(b)) => a == b,
		(Value::Number(n), G::Num(f)) => n.as_f64().map_or(false, |x| x == *f),
		(Value::String(a), G::Str(b)) => a == b,
		(Value::Array(a), G::Arr(b, _)) => a.len() == b.len() && a.iter().zip(b).all(|(x, y)| same_serde(x, y)),
		(Value::Object(a), G::Obj(fs, _)) => {
			let vis: Vec<&(String, bool, G)> = fs.iter().filter(|f| !f.1).collect();
			a.len() == vis.len() && vis.iter().all(|(k, _, gv)| a.get(k).map_or(false, |x| same_serde(x, gv)))
		}
		_ => false,
	}
}

fn same_val(v: &Val, g: &G) -> bool {
	match (v, g) {
		(Val::Null, G::Null) => true,
		(Val::Bool(a), G::Bool(b)) => a == b,
		(Val::Num(n), G::Num(f)) => n.get() == *f,
		(Val::Str(a), G::Str(b)) => a.clone().into_flat().as_str() == b.as_str(),
		(Val::Arr(a), G::Arr(b, _)) => {
			a.len() == b.len()
				&& a.iter().zip(b).all(|(x, y)| x.map_or(false, |x| same_val(&x, y)))
		}
		(Val::Obj(o), G::Obj(fs, _)) => {
			let mut vis: Vec<&(String, bool, G)> = fs.iter().filter(|f| !f.1).collect();
			vis.sort_by(|a, b| a.0.as_bytes().cmp(b.0.as_bytes()));
			let keys = o.fields_ex(true);
			keys.len() == vis.len()
				&& keys.iter().zip(&vis).all(|(k, f)| k.as_str() == f.0.as_str())
				&& vis.iter().all(|(k, _, gv)| {
					matches!(o.get(k.as_str().into()), Ok(Some(x)) if same_val(&x, gv))
				})
		}
		_ => false,
	}
}

// ---------------------------------------------------------------- generators

const SPECIAL_CP: &[u32] = &[
	0x00, 0x01, 0x07, 0x08, 0x09, 0x0A, 0x0B, 0x0C, 0x0D, 0x0E, 0x1F, 0x20, 0x21, 0x22, 0x23, 0x2F, 0x5B, 0x5C,
	0x5D, 0x7E, 0x7F, 0x80, 0x9F, 0xA0, 0xFF, 0x100, 0x7FF, 0x800, 0xFFF, 0x1000, 0x2027, 0x2028, 0x2029, 0xD7FF,
	0xE000, 0xFEFF, 0xFFFD, 0xFFFE, 0xFFFF, 0x10000, 0x1F600, 0xFFFFF, 0x100000, 0x10FFFF,
];

fn gen_cp(rng: &mut Rng) -> char {
	loop {
		let c = match rng.below(10) {
			0 | 1 | 2 => *rng.pick(SPECIAL_CP),
			3 | 4 | 5 => rng.range(0x20, 0x7E) as u32,
			6 => rng.range(0, 0x1F) as u32,
			7 => rng.range(0x80, 0x7FF) as u32,
			8 => rng.range(0x800, 0xFFFF) as u32,
			_ => rng.range(0x10000, 0x10FFFF) as u32,
		};
		if let Some(ch) = char::from_u32(c) {
			return ch;
		}
	}
}

fn gen_str(rng: &mut Rng) -> String {
	let n = match rng.below(12) {
		0 => 0,
		1 => 1,
		11 => rng.range(40, 300) as usize,
		_ => rng.range(1, 9) as usize,
	};
	(0..n).map(|_| gen_cp(rng)).collect()
}

const SPECIAL_NUM: &[f64] = &[
	0.0,
	-0.0,
	1.0,
	-1.0,
	0.1,
	-0.1,
	1.5,
	0.3,
	1e21,
	1e22,
	1e23,
	1e-5,
	1e-7,
	123456789012345680000.0,
	9007199254740991.0,
	9007199254740992.0,
	9007199254740993.0,
	9007199254740994.0,
	-9007199254740993.0,
	9223372036854775807.0,
	9223372036854775808.0,
	18446744073709551615.0,
	18446744073709551616.0,
	-9223372036854775808.0,
	-9223372036854777856.0,
	4294967296.0,
	2147483648.0,
	f64::MAX,
	f64::MIN,
	f64::MIN_POSITIVE,
	2.2250738585072009e-308,
	5e-324,
	-5e-324,
	1e308,
	1e-308,
	0.30000000000000004,
	2.5e-8,
	100.0,
	1e15,
	1e16,
	1e17,
];

fn gen_num(rng: &mut Rng) -> f64 {
	match rng.below(10) {
		0 | 1 | 2 => *rng.pick(SPECIAL_NUM),
		3 => rng.range(-1000, 1000) as f64,
		4 => rng.range(-1_000_000, 1_000_000) as f64 / 1000.0,
		5 => {
			// integers around powers of two beyond 2^53
			let e = rng.range(50, 70) as i32;
			(2f64).powi(e) + rng.range(-3, 3) as f64 * (2f64).powi((e - 52).max(0))
		}
		6 => {
			let e = rng.range(-320, 308) as i32;
			let m = rng.range(1, 9999) as f64;
			let v = m * (10f64).powi(e);
			if v.is_finite() {
				v
			} else {
				1e300
			}
		}
		_ => loop {
			let v = f64::from_bits(rng.next());
			if v.is_finite() {
				break v;
			}
		},
	}
}

/// numbers inside structured values: mostly short tokens (the full range is the business of the
/// `json.num` stream), one in ten from the full distribution
fn gen_num_short(rng: &mut Rng) -> f64 {
	match rng.below(10) {
		0 => gen_num(rng),
		1 | 2 | 3 => *rng.pick(&[0.0, -0.0, 1.0, -1.0, 0.1, 1.5, 1e21, 1e-7, 9007199254740993.0, 5e-324, 0.30000000000000004, 4294967296.0, -2.5]),
		4 | 5 | 6 => rng.range(-1000, 1000) as f64,
		7 | 8 => rng.range(-1_000_000, 1_000_000) as f64 / 1000.0,
		_ => f64::from_bits(0x3FF0_0000_0000_0000 | (rng.next() >> 12)) * (10f64).powi(rng.range(-6, 15) as i32),
	}
}

fn gen_key(rng: &mut Rng) -> String {
	match rng.below(6) {
		0 => String::new(),
		1 | 2 => {
			let n = rng.range(1, 3) as usize;
			(0..n).map(|_| *rng.pick(&['a', 'b', 'A', 'B', 'z', '_', '0', '1', ' ', 'é', 'ÿ', '\u{800}', '\u{FFFF}', '\u{10000}', '"', '\\', '\n', '\u{7f}'])).collect()
		}
		_ => gen_str(rng),
	}
}

fn gen(rng: &mut Rng, depth: usize, with_func: bool) -> G {
	let leaf = depth == 0 || rng.chance(2, 5);
	if leaf {
		return match rng.below(12) {
			0 => G::Null,
			1 => G::Bool(rng.chance(1, 2)),
			2 | 3 | 4 | 5 => G::Num(gen_num_short(rng)),
			6 | 7 | 8 => G::Str(gen_str(rng)),
			9 => G::Arr(vec![], rng.below(5) as u8),
			10 => G::Obj(vec![], rng.below(4) as u8),
			_ => {
				if with_func && rng.chance(1, 3) {
					G::Func
				} else {
					G::Null
				}
			}
		};
	}
	if rng.chance(1, 2) {
		let n = match rng.below(8) {
			0 => 0,
			1 => 1,
			7 => rng.range(8, 40) as usize,
			_ => rng.range(2, 5) as usize,
		};
		G::Arr((0..n).map(|_| gen(rng, depth - 1, with_func)).collect(), rng.below(5) as u8)
	} else {
		let n = match rng.below(8) {
			0 => 0,
			1 => 1,
			7 => rng.range(8, 30) as usize,
			_ => rng.range(2, 5) as usize,
		};
		let mut seen = std::collections::BTreeSet::new();
		let mut fs = Vec::new();
		for _ in 0..n {
			let k = gen_key(rng);
			if !seen.insert(k.clone()) {
				continue;
			}
			let hidden = rng.chance(1, 4);
			// hidden fields may hold functions: they are never visited
			let v = if hidden && rng.chance(1, 3) { G::Func } else { gen(rng, depth - 1, with_func) };
			fs.push((k, hidden, v));
		}
		G::Obj(fs, rng.below(4) as u8)
	}
}

// ---------------------------------------------------------------- paths

struct Path {
	name: &'static str,
	mode: Value,
}

fn run_path(env: &Env, v: &Val, p: &Path, ex: &(String, String, String)) -> Result<jrsonnet_evaluator::Result<String>, String> {
	let as_str = |r: jrsonnet_evaluator::Result<Val>| -> jrsonnet_evaluator::Result<String> {
		r.map(|v| v.as_str().map(|s| s.to_string()).unwrap_or_else(|| "<not a string>".to_owned()))
	};
	let n = p.mode.get("n").and_then(Value::as_u64).unwrap_or(0) as usize;
	guarded(|| match p.name {
		"minify" => v.manifest(JsonFormat::minify()),
		"default" => v.manifest(JsonFormat::default()),
		"cli" => v.manifest(JsonFormat::cli(n)),
		"std.manifestJson" => as_str(env.m_json.call(v.clone())),
		"std.manifestJsonMinified" => as_str(env.m_min.call(v.clone())),
		"std.manifestJsonEx/2" => as_str(env.m_ex2.call(v.clone(), ex.0.clone())),
		"std.manifestJsonEx/4" => as_str(env.m_ex4.call(v.clone(), ex.0.clone(), ex.1.clone(), ex.2.clone())),
		"std_to_json" => v.manifest(JsonFormat::std_to_json(ex.0.clone(), &ex.1, &ex.2)),
		"ToStringFormat" => v.manifest(ToStringFormat),
		"std.toString" => as_str(env.to_string.call(v.clone())),
		"''+v" => as_str(env.cat_l.call(v.clone())),
		"v+''" => as_str(env.cat_r.call(v.clone())),
		_ => unreachable!(),
	})
}

pub fn run(opts: &Opts) {
	let s = new_state();
	let _g = s.enter();
	let fv = |code: &str| s.evaluate_snippet("<c05>".to_owned(), code.to_owned()).expect("snippet");
	macro_rules! nf {
		($code:expr) => {
			FromUntyped::from_untyped(fv($code)).expect("native fn")
		};
	}
	let env = Env {
		func: fv("function(x) x"),
		map_id: nf!("function(a) std.map(function(x) x, a)"),
		rev2: nf!("function(a) std.reverse(std.reverse(a))"),
		add_empty_r: nf!("function(o) o + {}"),
		add_empty_l: nf!("function(o) {} + o"),
		m_json: nf!("function(v) std.manifestJson(v)"),
		m_min: nf!("function(v) std.manifestJsonMinified(v)"),
		m_ex4: nf!("function(v, i, n, s) std.manifestJsonEx(v, i, n, s)"),
		m_ex2: nf!("function(v, i) std.manifestJsonEx(v, i)"),
		to_string: nf!("function(v) std.toString(v)"),
		cat_l: nf!("function(v) '' + v"),
		cat_r: nf!("function(v) v + ''"),
		parse_json: nf!("function(s) std.parseJson(s)"),
		esc_builtin: nf!("function(s) std.escapeStringJson(s)"),
		str_cat: nf!("function(a, b) a + b"),
	};
	let mut w = CaseWriter::new(&opts.out);
	let mut rng = Rng::new(opts.seed);
	let thorough = opts.thorough();
	let mut hist: BTreeMap<String, usize> = BTreeMap::new();
	let mut bump = |hist: &mut BTreeMap<String, usize>, k: &str| *hist.entry(k.to_owned()).or_default() += 1;

	// ---- 1. string escaper: every Unicode scalar value, in chunks; each chunk also with the
	//         interesting code point first / in the middle / last
	let chunk = if thorough { 256u32 } else { 2048u32 };
	let mut strings: Vec<String> = Vec::new();
	let mut c0 = 0u32;
	let mut n_scalars = 0usize;
	while c0 < 0x110000 {
		let st: String = (c0..(c0 + chunk).min(0x110000)).filter_map(char::from_u32).collect();
		n_scalars += st.chars().count();
		if !st.is_empty() {
			strings.push(st);
		}
		c0 += chunk;
	}
	for cp in (0u32..0x100).chain(SPECIAL_CP.iter().copied()) {
		if let Some(ch) = char::from_u32(cp) {
			strings.push(ch.to_string());
			strings.push(format!("{ch}ab"));
			strings.push(format!("a{ch}b"));
			strings.push(format!("ab{ch}"));
			strings.push(format!("{ch}{ch}"));
		}
	}
	strings.push(String::new());
	for _ in 0..(if thorough { 20000 } else { 1500 }) {
		strings.push(gen_str(&mut rng));
	}
	for (i, st) in strings.iter().enumerate() {
		let sz = 1 + st.len() / 8;
		let r = guarded(|| escape_string_json(st));
		let ans = match &r {
			Ok(t) => json!({"out": hex(t.as_bytes())}),
			Err(p) => json!({"panic": p}),
		};
		w.case(json!({"op":"json.esc","via":"escape_string_json","s":hex(st.as_bytes()),"size":sz}), ans);
		bump(&mut hist, "esc");
		if let Ok(t) = &r {
			w.case(
				json!({"op":"json.unesc","s":hex(st.as_bytes()),"text":hex(t.as_bytes()),"size":sz}),
				json!({"observed": true}),
			);
			// serde_json as independent string reader
			let sj = serde_json::from_str::<Value>(t).ok().and_then(|v| v.as_str().map(|x| x == st)).unwrap_or(false);
			w.case(
				json!({"op":"json.indep","what":"serde_json reads escape_string_json(s) back as s (see the json.unesc case on line `case`)","case":w.n,"_s":st.chars().take(64).collect::<String>(),"expect":{"serde":true},"size":sz}),
				json!({"serde": sj}),
			);
		}
		if i % 7 == 0 || st.len() < 16 {
			// the builtin wrapper
			let r2 = guarded(|| env.esc_builtin.call(st.clone()));
			let ans = match r2 {
				Ok(Ok(v)) => json!({"out": hex(v.as_str().map(|s| s.to_string()).unwrap_or_default().as_bytes())}),
				Ok(Err(e)) => json!({"err": format!("{}", e.error())}),
				Err(p) => json!({"panic": p}),
			};
			w.case(json!({"op":"json.esc","via":"std.escapeStringJson","s":hex(st.as_bytes()),"size":sz}), ans);
			bump(&mut hist, "esc.builtin");
		}
	}

	// ---- 2. numeric tokens
	let mut nums: Vec<f64> = SPECIAL_NUM.to_vec();
	for e in -324..=308 {
		let v: f64 = format!("1e{e}").parse().expect("float");
		if v.is_finite() {
			nums.push(v);
			nums.push(-v);
			nums.push(f64::from_bits(v.to_bits() + 1));
			if v.to_bits() > 0 {
				nums.push(f64::from_bits(v.to_bits() - 1));
			}
		}
	}
	for e in 0..=1023 {
		let v = (2f64).powi(e);
		nums.push(v);
		nums.push(f64::from_bits(v.to_bits() - 1));
		nums.push((2f64).powi(-e));
	}
	for k in 0..52 {
		nums.push(f64::from_bits(1u64 << k)); // subnormals
	}
	for _ in 0..(if thorough { 300000 } else { 20000 }) {
		nums.push(gen_num(&mut rng));
	}
	let mut exp_hist: BTreeMap<i32, usize> = BTreeMap::new();
	for f in &nums {
		let be = ((f.to_bits() >> 52) & 0x7ff) as i32;
		*exp_hist.entry(be / 128).or_default() += 1;
		let tok = num_tok(*f);
		let (tokhex, ok) = match &tok {
			Ok(t) => (hex(t.as_bytes()), true),
			Err(_) => (String::new(), false),
		};
		w.case(
			json!({"op":"json.num","bits":format!("{:016x}", f.to_bits()),"tok":tokhex,"size":1,"_tok":tok.clone().unwrap_or_else(|e| e)}),
			json!({"observed": ok}),
		);
		// independent readers on the bare token
		if let Ok(t) = &tok {
			let sj = serde_json::from_str::<Value>(t).ok().and_then(|v| v.as_f64()).map_or(false, |x| x == *f);
			let pj = match guarded(|| env.parse_json.call(t.clone())) {
				Ok(Ok(Val::Num(n))) => n.get() == *f,
				_ => false,
			};
			w.case(
				json!({"op":"json.indep","what":"number token read by serde_json / std.parseJson","bits":format!("{:016x}", f.to_bits()),"tok":t,"expect":{"serde":true,"parse":true},"size":1}),
				json!({"serde": sj, "parse": pj}),
			);
		}
		bump(&mut hist, "num");
	}

	// ---- 3. values × paths
	let n_vals = if thorough { 6000 } else { 1200 };
	let mut values: Vec<G> = vec![
		G::Null,
		G::Bool(true),
		G::Bool(false),
		G::Num(-0.0),
		G::Str(String::new()),
		G::Str("a\"b\\c\u{0}\u{1f}\u{7f}\u{2028}\u{1F600}".into()),
		G::Arr(vec![], 0),
		G::Obj(vec![], 0),
		G::Arr(vec![G::Arr(vec![], 1), G::Obj(vec![], 1)], 0),
		G::Obj(vec![("b".into(), false, G::Arr(vec![], 0)), ("a".into(), false, G::Obj(vec![], 0))], 0),
		G::Obj(vec![("x".into(), true, G::Num(1.0))], 0),
		G::Obj(vec![("b".into(), false, G::Num(1.0)), ("a".into(), true, G::Func), ("A".into(), false, G::Num(2.0))], 3),
		G::Func,
		G::Arr(vec![G::Num(1.0), G::Func], 0),
		G::Obj(vec![("f".into(), false, G::Func)], 0),
		// witness of the Lean non-vacuity example
		G::Obj(
			vec![
				("z".into(), false, G::Arr(vec![G::Arr(vec![], 0), G::Str("\u{0}\"\\\u{7f}\u{2028}\u{1F600}".into()), G::Null, G::Bool(true)], 0)),
				("\u{0}\"\\\u{7f}\u{2028}\u{1F600}".into(), false, G::Obj(vec![], 0)),
				("a".into(), false, G::Arr(vec![G::Num(-0.0), G::Num(1.5), G::Num(9007199254740994.0), G::Num(5e-324), G::Num(0.0)], 1)),
			],
			0,
		),
	];
	// deep and wide
	let mut deep = G::Num(1.0);
	for i in 0..60 {
		deep = if i % 2 == 0 { G::Arr(vec![deep], (i % 5) as u8) } else { G::Obj(vec![("k".into(), false, deep)], (i % 4) as u8) };
	}
	values.push(deep);
	// around serde_json's default recursion limit of 128 (the reader behind std.parseJson): every depth the
	// default stack limit lets the manifester emit must be read back
	for n in [100usize, 126, 127, 128, 129, 150, 190] {
		let mut deep = G::Num(1.0);
		for i in 0..n {
			deep = if i % 3 != 1 { G::Arr(vec![deep], 0) } else { G::Obj(vec![("k".into(), false, deep)], 0) };
		}
		values.push(deep);
	}
	values.push(G::Arr((0..1500).map(|i| G::Num(i as f64)).collect(), 3));
	values.push(G::Obj((0..300).map(|i| (format!("k{}", (i * 7919) % 1000), (i % 9 == 0, G::Num(i as f64)))).collect::<BTreeMap<_, _>>().into_iter().map(|(k, (h, v))| (k, h, v)).rev().collect(), 3));
	for i in 0..n_vals {
		let depth = 1 + rng.below(if thorough { 6 } else { 5 });
		values.push(gen(&mut rng, depth, i % 5 == 0));
	}
	let indents = ["", " ", "  ", "    ", "\t", " \t", "\n"];
	let newlines = ["\n", "", "\r\n", " ", "\n\n"];
	let seps = [": ", ":", " : ", "\t:\n", " :"];
	let mut depth_hist: BTreeMap<usize, usize> = BTreeMap::new();
	let mut n_func = 0usize;
	for g in &values {
		*depth_hist.entry(g.depth()).or_default() += 1;
		if g.has_func() {
			n_func += 1;
		}
		let built = guarded(|| g.build(&env));
		let v = match built {
			Ok(v) => v,
			Err(p) => {
				w.case(json!({"op":"json.write","mode":{"k":"minify"},"v":g.json(),"size":g.size()}), json!({"panic": format!("build: {p}")}));
				continue;
			}
		};
		let gj = g.json();
		let ex = (
			(*rng.pick(&indents)).to_owned(),
			(*rng.pick(&newlines)).to_owned(),
			(*rng.pick(&seps)).to_owned(),
		);
		let cli_n = *rng.pick(&[0usize, 1, 2, 3, 4, 7, 8]);
		let std_mode = |i: &str, n: &str, s: &str| json!({"k":"std","indent":hex(i.as_bytes()),"nl":hex(n.as_bytes()),"sep":hex(s.as_bytes())});
		let paths = vec![
			Path { name: "minify", mode: json!({"k":"minify"}) },
			Path { name: "default", mode: json!({"k":"default"}) },
			Path { name: "cli", mode: json!({"k":"cli","n":3}) },
			Path { name: "cli", mode: json!({"k":"cli","n":cli_n}) },
			Path { name: "std.manifestJson", mode: std_mode("    ", "\n", ": ") },
			Path { name: "std.manifestJsonMinified", mode: json!({"k":"minify"}) },
			Path { name: "std.manifestJsonEx/2", mode: std_mode(&ex.0, "\n", ": ") },
			Path { name: "std.manifestJsonEx/4", mode: std_mode(&ex.0, &ex.1, &ex.2) },
			Path { name: "std_to_json", mode: std_mode(&ex.0, &ex.1, &ex.2) },
			Path { name: "ToStringFormat", mode: json!({"k":"tostring"}) },
			Path { name: "std.toString", mode: json!({"k":"tostring"}) },
			Path { name: "''+v", mode: json!({"k":"tostring"}) },
			Path { name: "v+''", mode: json!({"k":"tostring"}) },
		];
		let mut seen_text: std::collections::BTreeSet<String> = std::collections::BTreeSet::new();
		for p in &paths {
			let r = run_path(&env, &v, p, &ex);
			let sz = g.size();
			bump(&mut hist, p.name);
			let text = match &r {
				Ok(Ok(t)) => Some(t.clone()),
				_ => None,
			};
			let ans = match &r {
				Ok(Ok(t)) => json!({"out": hex(t.as_bytes())}),
				Ok(Err(e)) => {
					let msg = format!("{}", e.error());
					if msg.contains("tried to manifest function") {
						json!({"err":"func"})
					} else {
						json!({"err": format!("other: {msg}")})
					}
				}
				Err(pn) => json!({"panic": pn}),
			};
			w.case(json!({"op":"json.write","via":p.name,"mode":p.mode,"v":gj,"size":sz}), ans);
			let Some(text) = text else { continue };
			let is_tostring = p.mode["k"] == "tostring";
			if is_tostring && matches!(g, G::Str(_)) {
				continue; // a top-level string is passed through as-is: not JSON by design
			}
			if !seen_text.insert(text.clone()) {
				bump(&mut hist, "read.skipped-identical-text");
				continue; // the same bytes were already read back for this value
			}
			let case_no = w.n + 1;
			w.case(
				json!({"op":"json.read","via":p.name,"text":hex(text.as_bytes()),"v":gj,"size":sz}),
				json!({"observed": true}),
			);
			// the independent reader has its recursion limit switched off (feature unbounded_depth)
			let sj = {
				use serde::Deserialize;
				let mut de = serde_json::Deserializer::from_str(&text);
				de.disable_recursion_limit();
				Value::deserialize(&mut de).ok().filter(|_| de.end().is_ok()).map_or(false, |x| same_serde(&x, g))
			};
			let pj = match guarded(|| env.parse_json.call(text.clone())) {
				Ok(Ok(back)) => guarded(|| same_val(&back, g)).unwrap_or(false),
				_ => false,
			};
			w.case(
				json!({"op":"json.indep","what":"emitted text read by serde_json / std.parseJson equals the source value (text and value: see the json.read case on line `case`)","via":p.name,"case":case_no,"_text":text.chars().take(300).collect::<String>(),"depth":g.depth(),"expect":{"serde":true,"parse":true},"size":sz}),
				json!({"serde": sj, "parse": pj}),
			);
		}
	}
	let meta = json!({
		"engine":"c05","cases":w.n,
		"strings":strings.len(),"unicode_scalars_covered":n_scalars,
		"numbers":nums.len(),"number_biased_exponent_div128_hist":exp_hist,
		"values":values.len(),"values_with_visited_function":n_func,"value_depth_hist":depth_hist,
		"case_hist":hist,
		"rule":"(1) escape_string_json + std.escapeStringJson on every Unicode scalar value (chunked) and each byte/special code point first/middle/last, byte-for-byte vs Lean loop model and RFC table, decoded by the Lean string reader and by serde_json; (2) number tokens for powers of 10/2 and neighbours, subnormals, 2^53..2^70 integers and random bit patterns: NumOK checked by the Lean exact-rounding reader, serde_json and std.parseJson; (3) seeded random JSON-like values to depth 5/6 (hidden fields, functions, inherited objects, lazily built arrays, deep 60, wide 1500) through JsonFormat::{minify,default,cli(n),std_to_json}, std.manifestJson/Minified/Ex (whitespace indent/newline/separator variants), ToStringFormat, std.toString, ''+v, v+'': bytes vs Lean writer, text read back by the Lean RFC 8259 reader, serde_json and std.parseJson"
	});
	w.finish(meta, &opts.out);
}
