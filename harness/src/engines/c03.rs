//! C03 — call-by-need: the C01 generator with `std.trace` labels planted at memoised positions
//! (locals, arguments, array elements, object fields) and error bombs in unneeded positions; the
//! multiset of trace labels must equal the one of the call-by-need definitional interpreter.
use crate::common::Opts;

pub fn run(opts: &Opts) {
	super::c01::run_engine(opts, true);
}
