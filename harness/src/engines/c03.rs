//! C03 — call-by-need.
//! `c03`  : the C01 generator with `std.trace` labels planted at memoised positions (locals,
//!          arguments, array elements, object fields) and error bombs in unneeded positions; the
//!          sorted multiset of trace labels must equal the one of the call-by-need definitional
//!          interpreter (so nothing unneeded ran and nothing shared ran twice).
//! `c03t` : the real `MemoizedClosureThunk` driven by scripted, re-entrant closures, against the
//!          memo automaton `Model/Thunk.lean`.
use std::cell::RefCell;

use jrsonnet_evaluator::{
	error::ErrorKind,
	val::{MemoizedClosureThunk, Thunk},
	Result, Val,
};
use jrsonnet_gcmodule::{Cc, Trace};
use serde_json::{json, Value};

use crate::common::{guarded, CaseWriter, Opts};

thread_local! {
	static RUNS: RefCell<usize> = const { RefCell::new(0) };
	static INNER: RefCell<Vec<String>> = const { RefCell::new(Vec::new()) };
}

#[derive(Trace)]
struct Env {
	reenters: usize,
	final_kind: u8,
	final_val: u32,
	cell: Cc<RefCell<Option<Thunk<Val>>>>,
}

fn show(r: &Result<Val>) -> String {
	match r {
		Ok(Val::Num(n)) => format!("ok:{}", n.get() as i64),
		Ok(_) => "ok:?".into(),
		Err(e) => match e.error() {
			ErrorKind::InfiniteRecursionDetected => "infrec".into(),
			ErrorKind::RuntimeError(m) => format!("err:{m}"),
			_ => "err:?".into(),
		},
	}
}

fn body(env: Env) -> Result<Val> {
	RUNS.with_borrow_mut(|r| *r += 1);
	let me = env.cell.borrow().clone().expect("cell set");
	for _ in 0..env.reenters {
		let r = me.evaluate();
		INNER.with_borrow_mut(|v| v.push(show(&r)));
	}
	match env.final_kind {
		0 => Ok(Val::Num((env.final_val as i32).into())),
		1 => Err(ErrorKind::RuntimeError(env.final_val.to_string().into()).into()),
		_ => Err(ErrorKind::InfiniteRecursionDetected.into()),
	}
}

fn run_thunk(opts: &Opts) {
	let mut w = CaseWriter::new(&opts.out);
	for reenters in 0..=3usize {
		for (fk, fv) in [(0u8, 1u32), (0, 5), (1, 7), (2, 0)] {
			for gets in 1..=4usize {
				RUNS.with_borrow_mut(|r| *r = 0);
				let cell: Cc<RefCell<Option<Thunk<Val>>>> = Cc::new(RefCell::new(None));
				let t: Thunk<Val> = Thunk::new(MemoizedClosureThunk::new(
					Env { reenters, final_kind: fk, final_val: fv, cell: cell.clone() },
					body,
				));
				*cell.borrow_mut() = Some(t.clone());
				let mut per: Vec<Value> = Vec::new();
				for _ in 0..gets {
					INNER.with_borrow_mut(Vec::clear);
					let before = RUNS.with_borrow(|r| *r);
					let r = guarded(|| t.evaluate());
					let ans = match &r {
						Ok(r) => show(r),
						Err(_) => "panic".into(),
					};
					let ran = RUNS.with_borrow(|r| *r) > before;
					per.push(json!({"answer": ans, "inner": INNER.with_borrow(Clone::clone), "ran": ran}));
				}
				*cell.borrow_mut() = None;
				let fin = match fk {
					0 => format!("ok:{fv}"),
					1 => format!("err:{fv}"),
					_ => "infrec".into(),
				};
				w.case(
					json!({"op":"thunk.script","reenters":reenters,"final":fin,"gets":gets,"size":reenters+gets}),
					json!({"gets": per, "runs": RUNS.with_borrow(|r| *r)}),
				);
			}
		}
	}
	let meta = json!({"engine":"c03t","cases":w.n,
		"rule":"MemoizedClosureThunk with a scripted closure: 0..3 re-entrant reads of its own cell, then ok/err/infinite-recursion; 1..4 outer reads; observed: each answer, what the closure saw on re-entry, whether the body ran, total runs"});
	w.finish(meta, &opts.out);
}

pub fn run(opts: &Opts) {
	if opts.engine == "c03t" {
		run_thunk(opts);
	} else {
		super::c01::run_engine(opts, true);
	}
}
