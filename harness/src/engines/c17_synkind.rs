//! C17 — WHICH offset every kind of syntax error of the default parser reports.
//!
//! The other families check the arithmetic offset → line/column of the `ImportSyntaxError` branch; this
//! one checks the offset itself.  For every error constructor of `crates/jrsonnet-ir-parser/src/lib.rs`
//! (`Parser::error` call sites, the hand-built `ParseError`s of `params` and `parse`) and every lexer
//! error kind (`SyntaxKind::error_description`) there are token templates in which ONE token is the
//! offender.  The program text is assembled token by token with generated separators (spaces, tabs, LF,
//! CRLF, block / line comments with multi-byte characters) after a header of filler lines of varying
//! length, so the byte offset of the offender is known by construction (`text.len()` when it is pushed).
//!
//! * in-process: `jrsonnet_ir_parser::parse` → raw `location.offset`; `State::evaluate_snippet` →
//!   `CompactFormat` → printed location  → op `syn.kind` (reference: the offender's own offset, its
//!   line/column; model: `syntaxErrorLoc`).
//! * binary: the text written to a file, stderr of `jrsonnet` → op `loc.start` (reference start).
//!
//! Conventions of the code that are modelled, not judged (see `checks/props/C17.py`):
//! * every parser error is reported at the START of the current token;
//! * at end of input the offset is the END of the last significant token (trailing trivia is not
//!   skipped); an input without any token reports offset 0;
//! * the three object-comprehension errors are raised after the comprehension was parsed: at the
//!   closing `}`;
//! * lexer errors are collected before parsing: the FIRST error lexeme of the file wins, reported at its
//!   first byte (for number junk: the first digit).
use std::collections::BTreeMap;

use jrsonnet_evaluator::{trace::TraceFormat, State};
use jrsonnet_ir::Source;
use serde_json::{json, Value};

use super::{compact, cps, parse_start, start_json};
use crate::common::{guarded, CaseWriter, Rng};

/// (kind, substring the message must contain, template).  Tokens are separated by one space, `␣` inside a
/// token is a space, `↵` a newline; the offender carries the prefix `@@`; a bare `@@` as last token is
/// "end of input" (the offset is then the end of the token before it).
pub const TEMPLATES: &[(&str, &str, &str)] = &[
	// Parser::eat — "expected X, got Y"
	("eat.rparen", "expected", "( 1 + 2 @@] "),
	("eat.rparen", "expected", "f ( 1 , 2 @@; 3 )"),
	("eat.rparen", "expected", "function ( a , b @@] a"),
	("eat.rbracket", "expected", "[ 1 , 2 @@3 ]"),
	("eat.rbracket", "expected", "[ 1 , 2 @@) "),
	("eat.rbracket", "expected", "a [ 1 @@) "),
	("eat.rbracket", "expected", "[ x for x in [ 1 ] @@, 2 ]"),
	("eat.rbrace", "expected", "{ a : 1 @@b : 2 }"),
	("eat.rbrace", "expected", "{ a : 1 , b : 2 @@] "),
	("eat.semi", "expected", "local a = 1 @@2"),
	("eat.semi", "expected", "local a = 1 , b = 2 @@) ; a"),
	("eat.semi", "expected", "assert true @@1"),
	("eat.eq", "expected", "local a @@: 1 ; a"),
	("eat.then", "expected", "if true @@else 1"),
	("eat.then", "expected", "if 1 < 2 @@3 then 4"),
	("eat.in", "expected", "[ x for x @@of [ 1 ] ]"),
	("eat.colon", "expected", "{ a @@= 1 }"),
	("eat.lparen", "expected", "function @@x ) x"),
	// expect_ident / destruct
	("ident", "expected identifier", "local @@1 = 2 ; 3"),
	("ident", "expected identifier", "a . @@1"),
	("ident", "expected identifier", "a . @@\"s\""),
	("ident", "expected identifier", "[ 1 for @@2 in [ 3 ] ]"),
	("ident.reserved", "expected identifier", "local @@if = 1 ; 2"),
	("ident.reserved", "expected identifier", "a . @@local"),
	("ident.param", "expected identifier", "function ( @@1 ) 2"),
	("ident.param", "expected identifier", "function ( a , @@( ) 2"),
	("ident.param", "expected identifier", "local f ( a , b , @@'c' ) = 1 ; f"),
	// parse_string_content / parse_number
	("string.escape", "invalid string escape", "local s = @@\"a\\qb\" ; s"),
	("string.escape", "invalid string escape", "{ @@'\\u12' : 1 }"),
	("string.escape", "invalid string escape", "[ 1 , 'ok' , @@\"é\\x\" , 3 ]"),
	("number.finite", "numbers are finite", "1 + @@1e999 + 2"),
	("number.finite", "numbers are finite", "[ 1 , @@9e9999 ]"),
	// params: duplicate parameter name — the offender is the REPEATED occurrence
	("param.duplicate", "duplicate parameter name", "function ( a , b , @@a ) 1"),
	("param.duplicate", "duplicate parameter name", "function ( alpha , beta = 1 , @@alpha = 2 ) alpha"),
	("param.duplicate", "duplicate parameter name", "local f ( x , @@x ) = 1 ; f"),
	("param.duplicate", "duplicate parameter name", "{ m ( p , q , r , @@q ) : 1 }"),
	("param.duplicate", "duplicate parameter name", "function ( a , @@a , a ) 1"),
	("param.duplicate", "duplicate parameter name", "function ( a = [ 1 , 2 ] , b = { c : 3 } , @@b ) 1"),
	("param.duplicate", "duplicate parameter name", "local o = { f ( u , v , w , x , @@u , ) :: 1 } ; o"),
	// args
	("arg.positional-after-named", "positional argument after named", "f ( a = 1 , @@2 )"),
	("arg.positional-after-named", "positional argument after named", "f ( 0 , a = 1 , b = 2 , @@g ( 3 ) )"),
	// field_name
	("field.name", "expected field name", "{ @@1 : 2 }"),
	("field.name", "expected field name", "{ a : 1 , @@+ : 2 }"),
	// object comprehension (raised after the comprehension: at the closing brace)
	("objcomp.two-fields", "only contain one field", "{ [ k ] : 1 , [ k + 'x' ] : 2 for k in [ 'a' ] @@}"),
	("objcomp.assert", "asserts are unsupported", "{ assert true , [ k ] : 1 for k in [ 'a' ] @@}"),
	("objcomp.no-field", "missing object comprehension field", "{ local a = 1 for k in [ 'a' ] @@}"),
	// primary expression
	("unexpected.reserved", "unexpected", "1 + @@then"),
	("unexpected.reserved", "unexpected", "( @@in )"),
	("unexpected.token", "unexpected", "1 + @@)"),
	("unexpected.token", "unexpected", "[ 1 , @@; ]"),
	("unexpected.token", "unexpected", "@@]"),
	("unexpected.token", "unexpected", "local a = @@; a"),
	("unexpected.token", "unexpected", "{ a : @@} "),
	("unexpected.token", "unexpected", "f ( 1 , @@, )"),
	// parse: junk after the program
	("trailing", "expected end of file", "1 @@2"),
	("trailing", "expected end of file", "{ } @@}"),
	("trailing", "expected end of file", "local a = 1 ; a @@local b = 2 ; b"),
	("trailing", "expected end of file", "[ 1 ] @@\"s\""),
	// end of input: END of the last significant token
	("eof", "end of file", "1 + @@"),
	("eof", "end of file", "[ 1 , 2 @@"),
	("eof", "end of file", "{ a : 1 @@"),
	("eof", "end of file", "f ( 1 @@"),
	("eof", "end of file", "local z = 1 ; @@"),
	("eof", "end of file", "function ( a , @@"),
	("eof", "end of file", "if true then 1 else @@"),
	("eof", "end of file", "local s = \"é\" ; s + @@"),
	// lexer errors: first byte of the error lexeme
	("lex.string-double", "unterminated double-quoted", "1 + @@\"abc␣é"),
	("lex.string-double", "unterminated double-quoted", "{ a : [ 1 , @@\"x↵y"),
	("lex.string-single", "unterminated single-quoted", "[ @@'abc"),
	("lex.verbatim-double", "unterminated verbatim double", "local s = @@@\"ab\"\"c"),
	("lex.verbatim-single", "unterminated verbatim single", "local s = @@@'ab''c↵é"),
	("lex.verbatim-noquote", "verbatim string missing", "1 + @@@xy + 2"),
	("lex.comment-unterminated", "unterminated multi-line comment", "1 + @@/*␣never␣closed␣é"),
	("lex.comment-short", "comment too short", "1 + @@/*/"),
	("lex.char", "unexpected character", "1 + @@` + 2"),
	("lex.char", "unexpected character", "[ 1 , @@\\ 2 ]"),
	("lex.char", "unexpected character", "local a = 1 ; a @@\u{a7} 2"),
	("lex.number-point", "junk after decimal point", "1 + @@1.x + 2"),
	("lex.number-exp", "junk after exponent in", "[ @@1ex , 2 ]"),
	("lex.number-exp-sign", "junk after exponent sign", "[ @@2.5e+x , 2 ]"),
	("lex.block-unexpected-end", "text block", "local t = @@|||↵␣␣a"),
	("lex.block-missing-newline", "text block", "local t = @@|||␣x↵␣␣a↵||| ; t"),
	("lex.block-missing-indent", "text block", "local t = @@|||↵noindent↵||| ; t"),
	("lex.block-missing-termination", "text block", "local t = @@|||↵␣␣a↵␣b↵||| ; t"),
	// a lexer error behind a place the parser would reject: the lexer error is reported
	("lex.before-parse", "unterminated single-quoted", "1 1 ) @@'abc"),
	("lex.before-parse", "unexpected character", "function ( a , a ) [ @@` ]"),
];

/// templates without any token: offset 0 whatever the (trivia-only) text is
pub const NO_TOKEN: &str = "no-token";

const SEPS: &[&str] = &[
	" ", " ", " ", "  ", "\t", " \t ", "\n", "\n  ", "\n\t", "\r\n", "\r\n    ", " /* é */ ", " /* c */ ",
	" // line 中\n", "\n# ü😀\n\t", "\n\n", " /* multi\n   line */ ",
];
const HEADER: &[&str] = &[
	"// caf\u{e9} \u{2014} note\r\n",
	"\n",
	"\r\n",
	"local v%d = %d;\n",
	"local s%d = \"é€\";\r\n",
	"\t\t# tab\n",
	"/* multi\n line 😀 */\n",
	"local long%d = 'xxxxxxxxxxxxxxxxxxxxxxxxxxxxxxxxxxxxxxxxxxxxxxxxxxxxxxxxxxxxxxxxxxxxxxxxxxxxxxx';\n",
	"local t%d = |||\n  text é\n|||;\n",
	"// x\n",
];
const HEADER_TRIVIA: &[&str] = &["// caf\u{e9}\r\n", "\n", "\r\n", "\t\t# tab\n", "/* multi\n line 😀 */\n", "  ", "// x\n"];
const TRAIL: &[&str] = &["", "", "\n", "\r\n", " ", "\n// trailing é\n", " // same line é", "\n\n/* 😀 */", " # 中", "\t"];

pub struct SynCase {
	pub kind: &'static str,
	pub msg: &'static str,
	pub text: String,
	/// byte offset the error has to be reported at
	pub at: usize,
	/// text of the offender (empty at end of input)
	pub tok: String,
	pub style: &'static str,
}

fn untoken(t: &str) -> String {
	t.replace('␣', " ").replace('↵', "\n")
}

/// style 0: one line, single spaces; 1: every token on its own line (LF or CRLF, indented);
/// 2: separators drawn per gap
pub fn gen_syn(rng: &mut Rng, tpl: usize, style: usize) -> SynCase {
	let (kind, msg, t) = TEMPLATES[tpl];
	let mut text = String::new();
	let nhead = if style == 0 && rng.chance(1, 2) { 0 } else { rng.below(5) };
	for i in 0..nhead {
		text.push_str(&rng.pick(HEADER).replace("%d", &i.to_string()));
	}
	let nl = if rng.chance(1, 3) { "\r\n" } else { "\n" };
	let indent = *rng.pick(&["  ", "\t", "    ", ""]);
	let mut at = None;
	let mut tok = String::new();
	let toks: Vec<&str> = t.split(' ').filter(|s| !s.is_empty()).collect();
	let mut last_end = text.len();
	for (i, raw) in toks.iter().enumerate() {
		let (is_off, body) = match raw.strip_prefix("@@") {
			Some(b) => (true, b),
			None => (false, *raw),
		};
		if is_off && body.is_empty() {
			// end of input: the end of the token before
			at = Some(last_end);
			break;
		}
		if i > 0 || !text.is_empty() {
			match style {
				0 => text.push(' '),
				1 => {
					if i > 0 {
						text.push_str(nl);
						text.push_str(indent);
					}
				}
				_ => text.push_str(*rng.pick(SEPS)),
			}
		}
		let s = untoken(body);
		if is_off {
			at = Some(text.len());
			tok = s.clone();
		}
		text.push_str(&s);
		last_end = text.len();
	}
	// unterminated strings / comments / blocks swallow what follows: they are last in their templates,
	// a trailer of trivia is harmless everywhere
	loop {
		let tr = *rng.pick(TRAIL);
		// a trailer must not terminate the unterminated / too short comment
		if !(kind.starts_with("lex.comment-") && tr.contains("*/")) {
			text.push_str(tr);
			break;
		}
	}
	SynCase {
		kind,
		msg,
		text,
		at: at.expect("template without offender"),
		tok,
		style: ["one-line", "token-per-line", "mixed"][style],
	}
}

/// an input without any token: empty, or trivia only
pub fn gen_no_token(rng: &mut Rng, i: usize) -> SynCase {
	let mut text = String::new();
	if i > 0 {
		for _ in 0..1 + rng.below(3) {
			text.push_str(*rng.pick(HEADER_TRIVIA));
		}
		// a line comment without its newline can only be last
		if rng.chance(1, 3) {
			text.push_str("// end é");
		}
	}
	SynCase { kind: NO_TOKEN, msg: "end of file", text, at: 0, tok: String::new(), style: "trivia-only" }
}

fn op_json(c: &SynCase, via: &str) -> Value {
	json!({"op":"syn.kind","via":via,"kind":c.kind,"text":cps(&c.text),"at":c.at,"tok":cps(&c.tok),
		"size":c.text.chars().count(),"_src":c.text,"_style":c.style})
}

/// second line of a CompactFormat rendering of an ImportSyntaxError: `    virtual:V:LOC`
fn printed_loc(rendered: &str) -> Option<String> {
	let l = rendered.lines().nth(1)?.trim();
	Some(l.strip_prefix("virtual:V:")?.to_string())
}

pub fn syn_case(w: &mut CaseWriter, s: &State, c: &SynCase, hist: &mut BTreeMap<String, usize>) {
	*hist.entry(format!("syn.{}", c.kind)).or_default() += 1;
	*hist.entry(format!("syn.style.{}", c.style)).or_default() += 1;
	let text = c.text.clone();
	let raw = guarded(|| {
		let src = Source::new_virtual("V".into(), text.as_str().into());
		jrsonnet_ir_parser::parse(&text, &jrsonnet_ir_parser::ParserSettings { source: src })
			.map(|_| ())
			.map_err(|e| (e.location.offset, e.message))
	});
	let (offset, message) = match raw {
		Err(pn) => {
			w.case(op_json(c, "parse"), json!({"panic": pn}));
			return;
		}
		Ok(Ok(())) => {
			w.case(op_json(c, "parse"), json!({"offset":"no-error"}));
			return;
		}
		Ok(Err(e)) => e,
	};
	if !message.contains(c.msg) {
		// the template did not raise the error kind it was written for (counted, shown in meta)
		*hist.entry(format!("syn.other-message.{}", c.kind)).or_default() += 1;
	}
	let rendered = guarded(|| match s.evaluate_snippet("V".to_owned(), text.clone()) {
		Ok(_) => None,
		Err(e) => Some(compact().format(&e).expect("fmt")),
	});
	let ans = match rendered {
		Err(pn) => json!({"panic": pn}),
		Ok(None) => json!({"offset": offset, "start": "no-error", "printed": "no-error"}),
		Ok(Some(r)) => {
			let p = printed_loc(&r);
			let start = start_json(&c.text, c.at.min(c.text.len()), p.as_deref().and_then(parse_start));
			json!({"offset": offset, "start": start, "printed": p, "_message": message, "_rendered": r})
		}
	};
	w.case(op_json(c, "parse+compact"), ans);
}

pub fn run_synkinds(w: &mut CaseWriter, rng: &mut Rng, s: &State, thorough: bool, hist: &mut BTreeMap<String, usize>) {
	let reps = if thorough { 24 } else { 4 };
	for tpl in 0..TEMPLATES.len() {
		syn_case(w, s, &gen_syn(rng, tpl, 0), hist);
		syn_case(w, s, &gen_syn(rng, tpl, 1), hist);
		for _ in 0..reps {
			syn_case(w, s, &gen_syn(rng, tpl, 2), hist);
		}
	}
	for i in 0..(if thorough { 40 } else { 8 }) {
		syn_case(w, s, &gen_no_token(rng, i), hist);
	}
}

/// the same generator through the binary: the text in a file, first `p.jsonnet:LOC` of stderr
pub fn run_synkinds_cli(
	w: &mut CaseWriter,
	rng: &mut Rng,
	bin: &std::path::Path,
	dir: &std::path::Path,
	thorough: bool,
	hist: &mut BTreeMap<String, usize>,
) {
	let reps = if thorough { 4 } else { 1 };
	let mut cases = Vec::new();
	for tpl in 0..TEMPLATES.len() {
		cases.push(gen_syn(rng, tpl, 1));
		for _ in 0..reps {
			cases.push(gen_syn(rng, tpl, 2));
		}
	}
	// (the empty file is left to the in-process run: it prints 1:2, a position the text does not have)
	for i in 1..4 {
		cases.push(gen_no_token(rng, i));
	}
	let file = dir.join("p.jsonnet");
	for c in &cases {
		*hist.entry(format!("syn.{}", c.kind)).or_default() += 1;
		std::fs::write(&file, &c.text).expect("write");
		let op = json!({"op":"loc.start","via":format!("cli.syn.{}", c.kind),"text":cps(&c.text),"at":[c.at],
			"size":c.text.chars().count(),"_src":c.text});
		match std::process::Command::new(bin).arg(&file).output() {
			Err(e) => w.case(op, json!({"spawn": e.to_string()})),
			Ok(o) => {
				let stderr = String::from_utf8_lossy(&o.stderr).into_owned();
				let got = stderr.lines().skip(1).find_map(|l| {
					let i = l.find("p.jsonnet:")?;
					let rest = &l[i + "p.jsonnet:".len()..];
					parse_start(rest.split(' ').next()?.trim_end_matches(':'))
				});
				w.case(op, json!({"start":[start_json(&c.text, c.at.min(c.text.len()), got)], "_stderr": stderr}));
			}
		}
	}
}
