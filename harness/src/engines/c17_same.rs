//! C17 — traces whose frames lie in DIFFERENT sources that share the DISPLAYED name.
//!
//! The displayed name of a source does not identify its text: every `--ext-code` / `--tla-code`
//! snippet is shown as `fifo("<inline code>")`, every `evaluate_snippet(name, …)` with the same name
//! as `virtual:name`, files with the same base name in different directories collide under
//! `PathResolver::FileName`, and a `Source` with the same path but another text (file rewritten
//! between two loads) collides under every resolver.  The families below build traces over several
//! such sources whose planted spans have
//!   * IDENTICAL start/end byte offsets but different line/column (`equal-offsets`: one source is
//!     shifted by blank lines / spaces / comments / CRLF / multi-byte pads of the same byte length),
//!   * the SAME line/column but different byte offsets (`equal-linecol`), or
//!   * unrelated positions (`natural`, control),
//! and demand of every printed frame the reference location computed from that frame's OWN text.
//!
//! * `run_same_synth`: synthetic traces over 2–4 sources (virtual / fifo / files under the three
//!   resolvers / same path with different text) → whole `CompactFormat` output vs the `writeTrace`
//!   model (`loc.trace`), reference start per frame (`loc.mstart`), `JsFormat` (`loc.js`);
//! * `run_same_programs`: real programs evaluated in-process — `std.extVar` chains over several
//!   ext-code snippets, functions passed between several tla-code snippets, tla + ext mixes,
//!   `evaluate_snippet` twice under one name, import chains / call chains through files called
//!   `lib.libsonnet` in different directories — rendered by `CompactFormat` (each resolver),
//!   `JsFormat` and `HiDocFormat` (observation);
//! * `run_same_cli`: the same programs through the `jrsonnet` binary (`--ext-code`, `--tla-code`,
//!   `-e` / file main, compact and explaining trace formats).
use std::{
	collections::{BTreeMap, HashMap},
	path::{Path, PathBuf},
};

use jrsonnet_evaluator::{
	apply_tla,
	error::{Error, ErrorKind, StackTraceElement},
	tla::TlaArg,
	trace::{CompactFormat, HiDocFormat, JsFormat, PathResolver, TraceFormat},
	FileImportResolver, State, Val,
};
use jrsonnet_interner::IStr;
use jrsonnet_ir::{Source, SourceFifo, SourceFile, SourcePath, Span};
use serde_json::{json, Value};

use super::c17_multi::{hidoc_marks, pad_text};
use super::{ascii_prefix, boundaries, cps, gen_text, start_json, FILLER, LINE_PREFIX, SUFFIX};
use crate::common::{guarded, CaseWriter, Rng};

// ---------------------------------------------------------------------------------------------
// parsing of rendered traces (independent of the displayed name)

/// `…:L:C`, `…:L:C-C2`, `…:L:C-L2:C2` at the end of `s` → (L, C)
fn trailing_loc(s: &str) -> Option<(u64, u64)> {
	let s = s.trim_end().trim_end_matches(':');
	let cut = s.rfind(|c: char| !(c.is_ascii_digit() || c == ':' || c == '-')).map_or(0, |i| i + s[i..].chars().next().map_or(1, char::len_utf8));
	let t = s[cut..].trim_start_matches(|c| c == ':' || c == '-');
	let mut it = t.split(|c| c == ':' || c == '-');
	let l = it.next()?.parse().ok()?;
	let c = it.next()?.parse().ok()?;
	Some((l, c))
}

/// CompactFormat: frames are matched IN TRACE ORDER by their description; a frame line is
/// `<padding><name>:<loc>:<align> <desc>`
fn compact_locs(rendered: &str, descs: &[&str]) -> Vec<Option<(u64, u64)>> {
	let lines: Vec<&str> = rendered.lines().skip(1).collect();
	let mut from = 0;
	let mut out = Vec::new();
	for d in descs {
		let mut got = None;
		for (i, l) in lines.iter().enumerate().skip(from) {
			if let Some(rest) = l.strip_suffix(d) {
				if rest.trim_end().ends_with(':') {
					got = trailing_loc(rest);
					from = i + 1;
					break;
				}
			}
		}
		out.push(got);
	}
	out
}

/// JsFormat: `    at <desc> (<name>:<line>:<column>)`
fn js_locs(rendered: &str, descs: &[&str]) -> Vec<Option<(u64, u64)>> {
	let lines: Vec<&str> = rendered.lines().skip(1).collect();
	let mut from = 0;
	let mut out = Vec::new();
	for d in descs {
		let mut got = None;
		for (i, l) in lines.iter().enumerate().skip(from) {
			let Some(r) = l.trim_start().strip_prefix("at ").and_then(|r| r.strip_prefix(d)).and_then(|r| r.strip_prefix(" (")) else {
				continue;
			};
			let Some(r) = r.strip_suffix(')') else { continue };
			let mut it = r.rsplitn(3, ':');
			let c = it.next().and_then(|x| x.parse::<u64>().ok());
			let l = it.next().and_then(|x| x.parse::<u64>().ok());
			if let (Some(l), Some(c)) = (l, c) {
				got = Some((l, c));
				from = i + 1;
				break;
			}
		}
		out.push(got);
	}
	out
}

/// HiDocFormat (observation): marks in order of appearance, matched in trace order by description
fn hidoc_locs(rendered: &str, descs: &[&str]) -> Vec<Option<(u64, u64)>> {
	let marks = hidoc_marks(rendered);
	let mut from = 0;
	let mut out = Vec::new();
	for d in descs {
		let mut got = None;
		for (i, m) in marks.iter().enumerate().skip(from) {
			if m.1 == *d && m.2 != 0 {
				got = Some((m.2, m.3));
				from = i + 1;
				break;
			}
		}
		out.push(got);
	}
	out
}

// ---------------------------------------------------------------------------------------------
// programs

#[derive(Clone, Debug, PartialEq)]
pub enum Supply {
	/// `-e` / `evaluate_snippet("<cmdline>")`
	MainSnippet,
	/// file (path relative to the case directory)
	File(String),
	Ext(String),
	Tla(String),
	/// `evaluate_snippet("S", …)`, every one under the same name (in-process only)
	Snippet,
}

pub struct Link {
	pub supply: Supply,
	pub text: String,
	/// planted frame: byte offset, byte length, description
	pub frame: Option<(usize, usize, String)>,
}

pub struct Chain {
	/// outermost (main) first; the trace lists them in reverse
	pub links: Vec<Link>,
	pub kind: &'static str,
	pub mode: &'static str,
	pub pad_kinds: Vec<&'static str>,
	pub width: usize,
}

impl Chain {
	/// links that carry a frame, INNERMOST FIRST (trace order)
	pub fn framed(&self) -> Vec<&Link> {
		self.links.iter().rev().filter(|l| l.frame.is_some()).collect()
	}
	pub fn descs(&self) -> Vec<&str> {
		self.framed().iter().map(|l| l.frame.as_ref().map_or("", |f| f.2.as_str())).collect()
	}
	pub fn op(&self, via: &str) -> Value {
		let files: Vec<Value> = self
			.framed()
			.iter()
			.map(|l| json!({"text": cps(&l.text), "at": [l.frame.as_ref().map_or(0, |f| f.0)], "_supply": format!("{:?}", l.supply), "_src": l.text}))
			.collect();
		let size: usize = self.links.iter().map(|l| l.text.chars().count()).sum();
		json!({"op":"loc.mstart","via":via,"kind":self.kind,"mode":self.mode,"files":files,"size":size})
	}
	pub fn answer(&self, got: &[Option<(u64, u64)>], rendered: &str) -> Value {
		let starts: Vec<Vec<Value>> = self
			.framed()
			.iter()
			.zip(got)
			.map(|(l, g)| vec![start_json(&l.text, l.frame.as_ref().map_or(0, |f| f.0), *g)])
			.collect();
		json!({"start": starts, "_rendered": rendered})
	}
	/// number of pairs of framed links of equally displayed sources with identical (start, end)
	pub fn offset_collisions(&self) -> usize {
		let f: Vec<(usize, usize)> = self.framed().iter().filter(|l| l.supply != Supply::MainSnippet).map(|l| l.frame.as_ref().map_or((0, 0), |f| (f.0, f.1))).collect();
		let mut n = 0;
		for i in 0..f.len() {
			for j in i + 1..f.len() {
				if f[i] == f[j] {
					n += 1;
				}
			}
		}
		n
	}
}

struct Draft {
	supply: Supply,
	head: String,
	/// from the start of the construct's own line (or of the lines that must stay glued to it)
	tail: String,
	/// bytes of `tail` before the construct
	pre: usize,
	len: usize,
	desc: Option<String>,
}
impl Draft {
	fn natural(&self) -> usize {
		self.head.len() + self.pre
	}
}

fn fillers(rng: &mut Rng, max: usize, n0: &mut usize) -> String {
	let mut s = String::new();
	for _ in 0..rng.below(max + 1) {
		s.push_str(&rng.pick(FILLER).replace("%d", &format!("{}", *n0)));
		*n0 += 1;
	}
	s
}

/// `E` wrapped so that it is still evaluated; returns (text before E, text after E)
fn wrapper(rng: &mut Rng) -> (&'static str, &'static str) {
	*rng.pick(&[("", ""), ("", ""), ("local r = ", "; r"), ("[", "][0]"), ("{ r: ", " }.r"), ("(", ")")])
}

fn draft(rng: &mut Rng, n0: &mut usize, supply: Supply, preamble: &str, before: &str, construct: &str, after: &str, desc: Option<String>, wrap: bool) -> Draft {
	let mut head = fillers(rng, 4, n0);
	head.push_str(preamble);
	if !preamble.is_empty() {
		head.push_str(&fillers(rng, 2, n0));
	}
	let prefix = *rng.pick(LINE_PREFIX);
	let (w0, w1) = if wrap { wrapper(rng) } else { ("", "") };
	let mut tail = format!("{prefix}{w0}{before}");
	if rng.chance(1, 5) && !before.is_empty() && before.ends_with(' ') {
		// the construct moves to a line of its own
		tail.push_str(if rng.chance(1, 3) { "\r\n" } else { "\n" });
		tail.push_str(*rng.pick(&["  ", "\t", "    ", ""]));
	}
	let pre = tail.len();
	tail.push_str(construct);
	tail.push_str(after);
	tail.push_str(w1);
	tail.push_str(*rng.pick(SUFFIX));
	Draft { supply, head, tail, pre, len: construct.len(), desc }
}

/// the innermost link: something that fails, its frame `width` bytes long
fn failing(rng: &mut Rng, n0: &mut usize, supply: Supply, width: usize) -> Draft {
	if width == 5 && rng.chance(2, 3) {
		draft(rng, n0, supply, "", "", "error", " 'boom é'", Some("error statement".into()), true)
	} else if width == 5 {
		draft(rng, n0, supply, "", "assert ", "1 > 2", " : 'mé'; 0", Some("assertion failure".into()), false)
	} else {
		draft(rng, n0, supply, "", "assert ", "1 == 2", " : 'mé'; 0", Some("assertion failure".into()), false)
	}
}

const FAMILIES: usize = 6;

/// `fam`: 0 ext chain, 1 functions through tla codes, 2 tla + ext, 3 snippets under one name,
/// 4 import chain through equally named files, 5 call chain through equally named files
pub fn gen_chain(rng: &mut Rng, fam: usize, cli: bool) -> Chain {
	let mut n = 0usize;
	let mut d: Vec<Draft> = Vec::new();
	let kind;
	let mut width = 5;
	let main_supply = |rng: &mut Rng| if rng.chance(1, 2) { Supply::MainSnippet } else { Supply::File("main.jsonnet".into()) };
	match fam % FAMILIES {
		0 => {
			kind = "ext-code chain";
			width = 5 + rng.below(2);
			let names: Vec<String> = ["a", "b", "c", "d"].iter().map(|s| s.repeat(width - 4)).collect();
			let n_ext = 2 + rng.below(3);
			let call = |k: usize| format!("(\"{}\")", names[k]);
			let ms = main_supply(rng);
			d.push(draft(rng, &mut n, ms, "", "std.extVar", &call(0), "", Some("function <builtin_ext_var> call".into()), true));
			for k in 0..n_ext - 1 {
				d.push(draft(rng, &mut n, Supply::Ext(names[k].clone()), "", "std.extVar", &call(k + 1), "", Some("function <builtin_ext_var> call".into()), true));
			}
			d.push(failing(rng, &mut n, Supply::Ext(names[n_ext - 1].clone()), width));
		}
		1 => {
			kind = "functions through tla-codes";
			let three = rng.chance(1, 2);
			let ms = main_supply(rng);
			if three {
				d.push(draft(rng, &mut n, ms, "", "function(p, q, r) r(q)", "( p )", "", Some("function <anonymous> call".into()), false));
				d.push(draft(rng, &mut n, Supply::Tla("r".into()), "", "function(g) function(o) g", "( o )", "", Some("function <anonymous> call".into()), false));
			} else {
				d.push(draft(rng, &mut n, ms, "", "function(p, q) q", "( p )", "", Some("function <anonymous> call".into()), false));
			}
			d.push(draft(rng, &mut n, Supply::Tla("q".into()), "", "function(o) o.f", "( 1 )", "", Some("function <f> call".into()), false));
			d.push(draft(rng, &mut n, Supply::Tla("p".into()), "", "{ f(v): ", "error", " 'boom é' }", Some("error statement".into()), false));
		}
		2 => {
			kind = "tla-code + ext-code";
			width = 5 + rng.below(2);
			let names: Vec<String> = ["a", "b"].iter().map(|s| s.repeat(width - 4)).collect();
			let two = rng.chance(1, 2);
			let ms = main_supply(rng);
			d.push(draft(rng, &mut n, ms, "", "function(p) ", "p", "", None, true));
			d.push(draft(rng, &mut n, Supply::Tla("p".into()), "", "std.extVar", &format!("(\"{}\")", names[0]), "", Some("function <builtin_ext_var> call".into()), true));
			if two {
				d.push(draft(rng, &mut n, Supply::Ext(names[0].clone()), "", "std.extVar", &format!("(\"{}\")", names[1]), "", Some("function <builtin_ext_var> call".into()), true));
				d.push(failing(rng, &mut n, Supply::Ext(names[1].clone()), width));
			} else {
				d.push(failing(rng, &mut n, Supply::Ext(names[0].clone()), width));
			}
		}
		3 if !cli => {
			kind = "snippets under one name";
			d.push(draft(rng, &mut n, Supply::Snippet, "", "function(o) o.f", "( 1 )", "", Some("function <f> call".into()), false));
			d.push(draft(rng, &mut n, Supply::Snippet, "", "{ f(v): ", "error", " 'boom é' }", Some("error statement".into()), false));
		}
		3 | 4 => {
			kind = "import chain through files of one base name";
			width = 6;
			let depth = 2 + rng.below(2);
			let main = if rng.chance(1, 2) { "lib.libsonnet" } else { "main.jsonnet" };
			let imp = "d1/lib.libsonnet".to_string();
			d.push(draft(rng, &mut n, Supply::File(main.into()), "", "local a = ", "import", &format!(" \"{imp}\"; a"), Some(format!("import {imp:?}")), false));
			for k in 1..depth {
				let imp = format!("../d{}/lib.libsonnet", k + 1);
				d.push(draft(rng, &mut n, Supply::File(format!("d{k}/lib.libsonnet")), "", "local a = ", "import", &format!(" \"{imp}\"; a"), Some(format!("import {imp:?}")), false));
			}
			d.push(failing(rng, &mut n, Supply::File(format!("d{depth}/lib.libsonnet")), 6));
		}
		_ => {
			kind = "call chain through files of one base name";
			let depth = 2 + rng.below(2);
			let main = if rng.chance(1, 2) { "lib.libsonnet" } else { "main.jsonnet" };
			d.push(draft(rng, &mut n, Supply::File(main.into()), "local l = import \"d1/lib.libsonnet\";\n", "l.f", "( 1 )", "", Some("function <f> call".into()), true));
			for k in 1..depth {
				let pre = format!("local l = import \"../d{}/lib.libsonnet\";\n", k + 1);
				d.push(draft(rng, &mut n, Supply::File(format!("d{k}/lib.libsonnet")), &pre, "{ f(x): l.f", "( x )", " }", Some("function <f> call".into()), false));
			}
			d.push(draft(rng, &mut n, Supply::File(format!("d{depth}/lib.libsonnet")), "", "{ f(x): ", "error", " 'deep é' }", Some("error statement".into()), false));
		}
	}
	// placement of the planted constructs relative to each other
	let mode = match rng.below(8) {
		0 => "natural",
		1 | 2 => "equal-linecol",
		_ => "equal-offsets",
	};
	let mut pad_kinds = Vec::new();
	let mut links = Vec::new();
	match mode {
		"equal-offsets" => {
			let target = d.iter().filter(|x| x.desc.is_some()).map(Draft::natural).max().unwrap_or(0) + rng.below(7);
			for x in d {
				let need = if x.desc.is_some() { target - x.natural() } else { 0 };
				let (pad, pk) = pad_text(rng, need);
				pad_kinds.push(pk);
				let at = x.head.len() + pad.len() + x.pre;
				let text = format!("{}{}{}", x.head, pad, x.tail);
				links.push(Link { supply: x.supply, text, frame: x.desc.map(|de| (at, x.len, de)) });
			}
		}
		"equal-linecol" => {
			// the same number of lines before the construct's line, of different lengths; the
			// construct's own line prefix is brought to the same number of characters with spaces
			let glued_nl = |x: &Draft| x.tail[..x.pre].matches('\n').count();
			let col = |x: &Draft| {
				let p = &x.tail[..x.pre];
				p[p.rfind('\n').map_or(0, |i| i + 1)..].chars().count()
			};
			let lines = d.iter().map(|x| x.head.matches('\n').count() + glued_nl(x)).max().unwrap_or(0) + rng.below(3);
			let cols = d.iter().map(col).max().unwrap_or(0) + rng.below(3);
			for (k, x) in d.into_iter().enumerate() {
				let mut head = x.head.clone();
				let mut have = head.matches('\n').count() + glued_nl(&x);
				// a head that does not end a line cannot take comment lines: it always does (fillers end lines)
				while have < lines {
					head.push_str(&format!("//{}\n", "·".repeat(rng.below(4) + k)));
					have += 1;
				}
				let c = col(&x);
				let tail = if glued_nl(&x) == 0 {
					format!("{}{}", " ".repeat(cols - c), x.tail)
				} else {
					// pad the construct's own line (after the last newline before it)
					let cut = x.tail[..x.pre].rfind('\n').map_or(0, |i| i + 1);
					format!("{}{}{}", &x.tail[..cut], " ".repeat(cols - c), &x.tail[cut..])
				};
				let at = head.len() + x.pre + (cols - c);
				pad_kinds.push("lines+spaces");
				let text = format!("{head}{tail}");
				links.push(Link { supply: x.supply, text, frame: x.desc.map(|de| (at, x.len, de)) });
			}
		}
		_ => {
			for x in d {
				pad_kinds.push("none");
				let at = x.head.len() + x.pre;
				let text = format!("{}{}", x.head, x.tail);
				links.push(Link { supply: x.supply, text, frame: x.desc.map(|de| (at, x.len, de)) });
			}
		}
	}
	for l in &links {
		if let Some((at, len, _)) = &l.frame {
			assert!(l.text.is_char_boundary(*at) && l.text.is_char_boundary(at + len), "planted span on boundaries");
		}
	}
	Chain { links, kind, mode, pad_kinds, width }
}

pub fn write_chain_files(dir: &Path, c: &Chain) {
	std::fs::create_dir_all(dir).expect("mkdir");
	for l in &c.links {
		if let Supply::File(p) = &l.supply {
			let f = dir.join(p);
			if let Some(parent) = f.parent() {
				std::fs::create_dir_all(parent).expect("mkdir");
			}
			std::fs::write(f, &l.text).expect("write");
		}
	}
}

fn bump(hist: &mut BTreeMap<String, usize>, k: String) {
	*hist.entry(k).or_default() += 1;
}

fn note_chain(hist: &mut BTreeMap<String, usize>, pfx: &str, c: &Chain) {
	bump(hist, format!("{pfx}.kind.{}", c.kind));
	bump(hist, format!("{pfx}.mode.{}", c.mode));
	bump(hist, format!("{pfx}.width.{}", c.width));
	bump(hist, format!("{pfx}.framed-sources.{}", c.framed().len()));
	if c.offset_collisions() > 0 {
		bump(hist, format!("{pfx}.chains-with-equal-offsets-in-equally-named-sources"));
	}
	for p in &c.pad_kinds {
		bump(hist, format!("{pfx}.pad.{p}"));
	}
}

/// evaluates the chain in a fresh State; `Ok(Some(e))` = the error
fn eval_chain(c: &Chain, dir: &Path) -> Result<Option<Error>, String> {
	let ci = jrsonnet_stdlib::ContextInitializer::new(PathResolver::new_cwd_fallback());
	let mut tla: HashMap<IStr, TlaArg> = HashMap::new();
	for l in &c.links {
		match &l.supply {
			Supply::Ext(n) => ci.add_ext_code(n, &l.text).map_err(|e| format!("add_ext_code: {e:?}"))?,
			Supply::Tla(n) => {
				tla.insert(n.as_str().into(), TlaArg::InlineCode(l.text.clone()));
			}
			_ => {}
		}
	}
	let mut b = State::builder();
	b.context_initializer(ci).import_resolver(FileImportResolver::new(vec![dir.to_path_buf()]));
	let s = b.build();
	let _g = s.enter();
	guarded(|| {
		let snippets: Vec<&Link> = c.links.iter().filter(|l| l.supply == Supply::Snippet).collect();
		let v = if snippets.len() == 2 {
			// both under the name S: the first is the caller, the second the callee's object
			let callee = s.evaluate_snippet("S", snippets[1].text.as_str());
			let caller = s.evaluate_snippet("S", snippets[0].text.as_str());
			match (caller, callee) {
				(Ok(f), Ok(o)) => {
					let mut a: HashMap<IStr, TlaArg> = HashMap::new();
					a.insert("o".into(), TlaArg::Val(o));
					apply_tla(&a, f)
				}
				(Err(e), _) | (_, Err(e)) => Err(e),
			}
		} else {
			let main = &c.links[0];
			let v = match &main.supply {
				Supply::File(p) => s.import(dir.join(p).as_path()),
				_ => s.evaluate_snippet("<cmdline>", main.text.as_str()),
			};
			v.and_then(|v| apply_tla(&tla, v))
		};
		v.and_then(|v: Val| v.manifest(jrsonnet_evaluator::manifest::JsonFormat::minify())).err()
	})
}

pub fn run_same_programs(w: &mut CaseWriter, rng: &mut Rng, out: &Path, thorough: bool, hist: &mut BTreeMap<String, usize>) {
	let base = out.join("same");
	std::fs::create_dir_all(&base).expect("mkdir");
	let n = if thorough { 3000 } else { 420 };
	for i in 0..n {
		let c = gen_chain(rng, i, false);
		let dir = base.join(format!("{i}"));
		write_chain_files(&dir, &c);
		note_chain(hist, "same", &c);
		let descs = c.descs();
		let e = match eval_chain(&c, &dir) {
			Ok(Some(e)) => e,
			Ok(None) => {
				w.case(c.op("same.compact"), json!({"start":"no-error"}));
				continue;
			}
			Err(p) => {
				w.case(c.op("same.compact"), json!({"panic": p}));
				continue;
			}
		};
		// every resolver: the displayed names differ, the positions must not
		let resolvers: [(&str, PathResolver); 3] =
			[("FileName", PathResolver::FileName), ("Absolute", PathResolver::Absolute), ("Relative", PathResolver::Relative(dir.clone()))];
		let has_files = c.links.iter().filter(|l| matches!(l.supply, Supply::File(_))).count() > 1;
		for (k, (rname, r)) in resolvers.into_iter().enumerate() {
			if !has_files && k != i % 3 {
				continue;
			}
			let via = format!("same.compact.{rname}");
			match guarded(|| CompactFormat { resolver: r, max_trace: 20, padding: 4 }.format(&e).expect("fmt")) {
				Ok(rendered) => w.case(c.op(&via), c.answer(&compact_locs(&rendered, &descs), &rendered)),
				Err(p) => w.case(c.op(&via), json!({"panic": p})),
			}
		}
		// JsFormat
		if let Ok(js) = guarded(|| JsFormat { max_trace: 20 }.format(&e).expect("fmt")) {
			let got = js_locs(&js, &descs);
			let framed = c.framed();
			let texts: Vec<Vec<u32>> = framed.iter().map(|l| cps(&l.text)).collect();
			let ats: Vec<usize> = framed.iter().map(|l| l.frame.as_ref().map_or(0, |f| f.0)).collect();
			let pos: Vec<Value> = framed
				.iter()
				.zip(&got)
				.map(|(l, g)| match g {
					Some((ln, col)) => {
						if ascii_prefix(&l.text, l.frame.as_ref().map_or(0, |f| f.0)) {
							json!([ln, col])
						} else {
							json!([ln, null])
						}
					}
					None => json!("no-frame"),
				})
				.collect();
			w.case(
				json!({"op":"loc.js","via":"same.js","kind":c.kind,"mode":c.mode,"texts":texts,"at":ats,"size":c.links.iter().map(|l| l.text.chars().count()).sum::<usize>()}),
				json!({"pos": pos, "_rendered": js}),
			);
		}
		// HiDoc (observation); its highlight column is a screen column: no tab before the construct
		let tab_before = c.framed().iter().any(|l| {
			let at = l.frame.as_ref().map_or(0, |f| f.0);
			let ls = l.text[..at].rfind('\n').map_or(0, |p| p + 1);
			l.text[ls..at].contains('\t')
		});
		if i % 3 == 0 {
			if tab_before {
				bump(hist, "same.hidoc.skipped(tab before the construct)".into());
			} else {
				match guarded(|| HiDocFormat { resolver: PathResolver::FileName, max_trace: 20 }.format(&e).expect("fmt")) {
					Ok(hd) => {
						bump(hist, "same.hidoc".into());
						w.case(c.op("same.hidoc"), c.answer(&hidoc_locs(&hd, &descs), &hd));
					}
					Err(p) => w.case(c.op("same.hidoc"), json!({"panic": p})),
				}
			}
		}
	}
}

/// the same programs through the binary
pub fn run_same_cli(w: &mut CaseWriter, rng: &mut Rng, bin: &Path, out: &Path, thorough: bool, hist: &mut BTreeMap<String, usize>) {
	let base = out.join("same");
	let n = if thorough { 600 } else { 64 };
	// inline codes are the sources the binary displays alike; files keep distinct relative paths
	const FAMS: [usize; 8] = [0, 1, 2, 0, 1, 2, 4, 5];
	for i in 0..n {
		let c = gen_chain(rng, FAMS[i % 8], true);
		let dir = base.join(format!("{i}"));
		write_chain_files(&dir, &c);
		note_chain(hist, "same", &c);
		let descs = c.descs();
		let mut cmd = std::process::Command::new(bin);
		cmd.current_dir(&dir);
		let explaining = i % 4 == 3;
		let tab_before = c.framed().iter().any(|l| {
			let at = l.frame.as_ref().map_or(0, |f| f.0);
			let ls = l.text[..at].rfind('\n').map_or(0, |p| p + 1);
			l.text[ls..at].contains('\t')
		});
		let explaining = explaining && !tab_before;
		if explaining {
			cmd.arg("--trace-format").arg("explaining");
		} else if i % 4 == 1 {
			cmd.arg("--trace-format").arg("compact");
		}
		for l in &c.links {
			match &l.supply {
				Supply::Ext(nm) => {
					cmd.arg("--ext-code").arg(format!("{nm}={}", l.text));
				}
				Supply::Tla(nm) => {
					cmd.arg("--tla-code").arg(format!("{nm}={}", l.text));
				}
				_ => {}
			}
		}
		match &c.links[0].supply {
			Supply::File(p) => {
				// relative or absolute main path
				if i % 2 == 0 {
					cmd.arg(p);
				} else {
					cmd.arg(dir.join(p));
				}
			}
			_ => {
				cmd.arg("-e").arg(&c.links[0].text);
			}
		}
		let via = if explaining { "same.cli.explaining" } else { "same.cli.compact" };
		bump(hist, via.to_string());
		match cmd.output() {
			Ok(o) => {
				let stderr = String::from_utf8_lossy(&o.stderr).into_owned();
				let got = if explaining { hidoc_locs(&stderr, &descs) } else { compact_locs(&stderr, &descs) };
				w.case(c.op(via), c.answer(&got, &stderr));
			}
			Err(e) => w.case(c.op(via), json!({"spawn": e.to_string()})),
		}
	}
}

// ---------------------------------------------------------------------------------------------
// synthetic traces over sources that share the displayed name

const DESCS: &[&str] = &["D", "function <f> call", "é desc", "", "error statement", "x y z"];

/// texts with a common body behind heads of the same byte length (`shift`), of the same line
/// structure but different lengths (`linecol`), or unrelated (`random`)
fn related_texts(rng: &mut Rng, nt: usize, long: bool) -> (Vec<String>, &'static str) {
	let body = gen_text(rng, if long { 60 } else { 16 });
	match rng.below(5) {
		0 | 1 => {
			let d = rng.below(12);
			let v = (0..nt)
				.map(|_| {
					let (p, _) = pad_text(rng, d);
					format!("{p}{body}")
				})
				.collect();
			(v, "shift(heads of equal byte length)")
		}
		2 => {
			let lines = rng.below(4);
			let col = rng.below(5);
			let v = (0..nt)
				.map(|k| {
					let mut h = String::new();
					for _ in 0..lines {
						h.push_str(&"x".repeat(rng.below(5) + k));
						h.push('\n');
					}
					h.push_str(&" ".repeat(col));
					format!("{h}{body}")
				})
				.collect();
			(v, "linecol(heads of equal line structure)")
		}
		3 => {
			// one text, some one-byte characters replaced by newlines / other one-byte characters
			let t0 = gen_text(rng, if long { 80 } else { 20 });
			let mut v = vec![t0.clone()];
			for _ in 1..nt {
				let bs: Vec<usize> = t0.char_indices().filter(|(_, c)| c.is_ascii()).map(|(i, _)| i).collect();
				let mut bytes = t0.clone().into_bytes();
				for _ in 0..1 + rng.below(4) {
					if bs.is_empty() {
						break;
					}
					let p = *rng.pick(&bs);
					bytes[p] = *rng.pick(&[b'\n', b'q', b' ', b'\n']);
				}
				v.push(String::from_utf8(bytes).expect("ascii replaced by ascii"));
			}
			(v, "newlines-replaced")
		}
		_ => ((0..nt).map(|_| gen_text(rng, if long { 80 } else { 20 })).collect(), "random"),
	}
}

pub fn run_same_synth(w: &mut CaseWriter, rng: &mut Rng, thorough: bool, hist: &mut BTreeMap<String, usize>) {
	let n = if thorough { 6000 } else { 900 };
	for i in 0..n {
		let nt = 2 + rng.below(3);
		let (texts, tk) = related_texts(rng, nt, i % 10 == 0);
		bump(hist, format!("samesynth.texts.{tk}"));
		// how the sources are named, and which resolver prints them
		let (resolver, rname): (PathResolver, &str) = match rng.below(3) {
			0 => (PathResolver::FileName, "FileName"),
			1 => (PathResolver::Absolute, "Absolute"),
			_ => (PathResolver::Relative(PathBuf::from("/vbase/w")), "Relative"),
		};
		let naming = *rng.pick(&["virtual", "fifo", "files-one-base-name", "one-path-several-texts", "mixed"]);
		let mut srcs: Vec<Source> = Vec::new();
		let mut names: Vec<String> = Vec::new();
		let mut js_names: Vec<String> = Vec::new();
		for (k, t) in texts.iter().enumerate() {
			let nm = if naming == "mixed" { *rng.pick(&["virtual", "fifo", "files-one-base-name", "one-path-several-texts"]) } else { naming };
			match nm {
				"virtual" => {
					srcs.push(Source::new_virtual("S".into(), t.as_str().into()));
					names.push("virtual:S".into());
					js_names.push("virtual:S".into());
				}
				"fifo" => {
					srcs.push(Source::new(SourcePath::new(SourceFifo("<inline code>".to_owned(), t.as_bytes().into())), t.as_str().into()));
					names.push("fifo(\"<inline code>\")".into());
					js_names.push("fifo(\"<inline code>\")".into());
				}
				_ => {
					let rel = if nm == "one-path-several-texts" { "d0/same.libsonnet".to_string() } else { format!("d{k}/same.libsonnet") };
					let abs = format!("/vbase/w/{rel}");
					srcs.push(Source::new(SourcePath::new(SourceFile::new(PathBuf::from(&abs))), t.as_str().into()));
					names.push(match rname {
						"FileName" => "same.libsonnet".to_string(),
						"Absolute" => abs.clone(),
						_ => rel,
					});
					js_names.push(abs);
				}
			}
		}
		bump(hist, format!("samesynth.naming.{naming}"));
		bump(hist, format!("samesynth.resolver.{rname}"));
		bump(hist, format!("samesynth.sources={nt}"));
		let bsets: Vec<Vec<u32>> = texts.iter().map(|t| boundaries(t)).collect();
		let nf = 1 + rng.below(7);
		let mut frames: Vec<Option<(usize, u32, u32)>> = Vec::new();
		let mut descs: Vec<&str> = Vec::new();
		let mut shared = 0;
		while frames.len() < nf {
			descs.push(*rng.pick(DESCS));
			if rng.chance(1, 10) {
				frames.push(None);
				continue;
			}
			let k = rng.below(nt);
			let bs = &bsets[k];
			let a = rng.below(bs.len());
			let cap = if rng.chance(1, 2) { 4 } else { 40 };
			let b = a + rng.below((bs.len() - a).min(cap));
			let (a, b) = (bs[a], bs[b]);
			frames.push(Some((k, a, b)));
			// the same offsets in the other sources, where they are character boundaries there too
			for k2 in 0..nt {
				if k2 != k && frames.len() < nf + 3 && bsets[k2].contains(&a) && bsets[k2].contains(&b) && rng.chance(3, 4) {
					frames.push(Some((k2, a, b)));
					descs.push(*rng.pick(DESCS));
					if names[k2] == names[k] && texts[k2] != texts[k] {
						shared += 1;
					}
				}
			}
			// a repeated frame (recursion)
			if rng.chance(1, 6) {
				frames.push(Some((k, a, b)));
				descs.push(*rng.pick(DESCS));
			}
		}
		if shared > 0 {
			bump(hist, "samesynth.traces-with-equal-offsets-in-equally-named-sources".into());
		}
		let mut e = Error::new(ErrorKind::RuntimeError("x".into()));
		for (f, d) in frames.iter().zip(&descs) {
			e.trace_mut().0.push(StackTraceElement { location: f.map(|(k, a, b)| Span(srcs[k].clone(), a, b)), desc: (*d).to_string() });
		}
		let size: usize = texts.iter().map(|t| t.chars().count()).sum();
		let fj: Vec<Value> = frames.iter().map(|f| f.map_or(Value::Null, |(k, a, b)| json!([k, a, b]))).collect();
		let op = json!({"op":"loc.trace","via":"samesynth","texts":texts.iter().map(|t| cps(t)).collect::<Vec<_>>(),
			"names":names,"frames":fj,"descs":descs,"msg":"runtime error: x","padding":4,"size":size,
			"naming":naming,"resolver":rname,"_src":texts});
		let fmt = CompactFormat { resolver, max_trace: 20, padding: 4 };
		match guarded(|| fmt.format(&e).expect("fmt")) {
			Ok(rendered) => {
				let lines: Vec<&str> = rendered.split('\n').collect();
				w.case(op, json!({"lines": lines}));
				// reference start per frame, one "file" entry per frame (its own text)
				let mut files = Vec::new();
				let mut starts: Vec<Vec<Value>> = Vec::new();
				for (idx, f) in frames.iter().enumerate() {
					if let Some((k, a, _)) = f {
						let got = lines.get(idx + 1).and_then(|l| {
							let t = l.trim_start().strip_prefix(names[*k].as_str())?.strip_prefix(':')?;
							let loc = t.split(' ').next()?.trim_end_matches(':');
							super::parse_start(loc)
						});
						files.push(json!({"text": cps(&texts[*k]), "at": [a]}));
						starts.push(vec![start_json(&texts[*k], *a as usize, got)]);
					}
				}
				w.case(
					json!({"op":"loc.mstart","via":"samesynth","naming":naming,"resolver":rname,"files":files,"size":size,"_src":texts}),
					json!({"start": starts, "_rendered": rendered}),
				);
			}
			Err(p) => w.case(op, json!({"panic": p})),
		}
		if let Ok(js) = guarded(|| JsFormat { max_trace: 20 }.format(&e).expect("fmt")) {
			let mut tx = Vec::new();
			let mut ats = Vec::new();
			let mut got = Vec::new();
			for (idx, f) in frames.iter().enumerate() {
				if let Some((k, a, _)) = f {
					tx.push(cps(&texts[*k]));
					ats.push(*a);
					let pos = js.split('\n').nth(idx + 1).and_then(|l| {
						let r = l.strip_suffix(')')?;
						let i = r.rfind(&format!("({}:", js_names[*k]))?;
						let r = &r[i + js_names[*k].len() + 2..];
						let (x, y) = r.split_once(':')?;
						Some((x.parse::<u64>().ok()?, y.parse::<u64>().ok()?))
					});
					got.push(match pos {
						Some((l, c)) => {
							if ascii_prefix(&texts[*k], *a as usize) {
								json!([l, c])
							} else {
								json!([l, null])
							}
						}
						None => json!("no-frame"),
					});
				}
			}
			w.case(json!({"op":"loc.js","via":"samesynth","texts":tx,"at":ats,"size":size}), json!({"pos": got, "_rendered": js}));
		}
	}
}
