//! C17 — source text is never lost and reported positions are accurate.
//!
//! engines (selected by `opts.engine`):
//! * `c17`    — `Source::map_source_locations` on generated texts (ASCII / multi-byte / CRLF mixes) at
//!              every character boundary, in tuples (unsorted, repeated, invalid) → `loc.map`
//!              (model + reference); synthetic trace frames with arbitrary spans rendered by
//!              `CompactFormat` → `loc.frame` (model of `print_code_location`) and `loc.start`
//!              (reference start line/column); programs with an `error`, `assert`, failing call or
//!              syntax error planted at a known offset, evaluated in-process → `loc.start`;
//!              `std.trace` planted at a known offset, location taken the way `StdTracePrinter`
//!              takes it → `loc.line`; which offset every kind of syntax error reports
//!              (`c17_synkind.rs`) → `syn.kind`.
//! * `c17lex` — lexer ranges / rowan tree text on token soups, random strings and mutated programs
//!              → `lex.tile` (observation); spans of the parsed IR → `ast.spans` (observation).
//! * `c17cli` — the `jrsonnet` binary on planted programs: `TRACE: file:line` and the error trace on
//!              stderr → `loc.line` / `loc.start`.
use std::{collections::BTreeMap, rc::Rc};

use jrsonnet_evaluator::{
	error::{Error, ErrorKind, StackTraceElement},
	function::CallLocation,
	trace::{CompactFormat, PathResolver, TraceFormat},
	State,
};
use jrsonnet_interner::IStr;
use jrsonnet_ir::{Source, Span};
use jrsonnet_stdlib::TracePrinter;
use serde_json::{json, Value};

use crate::common::{guarded, CaseWriter, Opts, Rng};

#[path = "c17_multi.rs"]
mod c17_multi;
#[path = "c17_block.rs"]
mod c17_block;
#[path = "c17_same.rs"]
mod c17_same;
#[path = "c17_synkind.rs"]
mod c17_synkind;

fn cps(s: &str) -> Vec<u32> {
	s.chars().map(|c| c as u32).collect()
}

fn boundaries(s: &str) -> Vec<u32> {
	let mut v: Vec<u32> = s.char_indices().map(|(i, _)| i as u32).collect();
	v.push(s.len() as u32);
	v
}

const ALPHA: &[&str] = &[
	"a", "b", "z", "x", "0", " ", " ", "\t", "\n", "\n", "\n", "\r\n", "\r\n", "\r", "é", "ß", "€", "中",
	"😀", "\u{301}", "\u{2028}", "\u{85}", "\"", "/", "#", "|",
];
const ASCII_ALPHA: &[&str] = &["a", "b", "z", " ", "\t", "\n", "\n", "\r\n", "0", "\"", "#"];

fn gen_text(rng: &mut Rng, maxlen: usize) -> String {
	let n = rng.below(maxlen + 1);
	let ascii = rng.chance(1, 5);
	let mut s = String::new();
	for _ in 0..n {
		let t: &str = if ascii { *rng.pick(ASCII_ALPHA) } else { *rng.pick(ALPHA) };
		s.push_str(t);
	}
	s
}

fn source(text: &str) -> Source {
	Source::new_virtual("V".into(), text.into())
}

fn map(src: &Source, offs: &[u32]) -> Vec<jrsonnet_ir::CodeLocation> {
	match offs.len() {
		0 => src.map_source_locations::<0>(&[]).to_vec(),
		1 => src.map_source_locations(&[offs[0]]).to_vec(),
		2 => src.map_source_locations(&[offs[0], offs[1]]).to_vec(),
		3 => src.map_source_locations(&[offs[0], offs[1], offs[2]]).to_vec(),
		4 => src.map_source_locations(&[offs[0], offs[1], offs[2], offs[3]]).to_vec(),
		_ => src
			.map_source_locations(&[offs[0], offs[1], offs[2], offs[3], offs[4]])
			.to_vec(),
	}
}

fn ascii_prefix(text: &str, at: usize) -> bool {
	let b = text.as_bytes();
	let mut i = at;
	while i > 0 && b[i - 1] != b'\n' {
		i -= 1;
		if b[i] >= 0x80 {
			return false;
		}
	}
	true
}

/// `L:C`, `L:C-C2`, `L:C-L2:C2` → (L, C)
fn parse_start(loc: &str) -> Option<(u64, u64)> {
	let mut it = loc.split(|c| c == ':' || c == '-');
	let l = it.next()?.parse().ok()?;
	let c = it.next()?.parse().ok()?;
	Some((l, c))
}

/// frames of a CompactFormat rendering: (location text, description)
fn frames(rendered: &str, prefix: &str) -> Vec<(String, String)> {
	let mut out = Vec::new();
	for line in rendered.lines().skip(1) {
		let t = line.trim_start();
		if let Some(rest) = t.strip_prefix(prefix) {
			let (loc, desc) = match rest.find(' ') {
				Some(i) => (&rest[..i], rest[i..].trim_start()),
				None => (rest, ""),
			};
			out.push((loc.trim_end_matches(':').to_string(), desc.to_string()));
		}
	}
	out
}

fn compact() -> CompactFormat {
	CompactFormat {
		resolver: PathResolver::FileName,
		max_trace: 20,
		padding: 4,
	}
}

fn start_json(text: &str, at: usize, got: Option<(u64, u64)>) -> Value {
	match got {
		None => json!("no-location"),
		Some((l, c)) => {
			if ascii_prefix(text, at) {
				json!([l, c])
			} else {
				json!([l, null])
			}
		}
	}
}

// ---------------------------------------------------------------------------------------------
// loc.map / loc.frame on generated texts

fn gen_queries(rng: &mut Rng, text: &str) -> Vec<Vec<u32>> {
	let bs = boundaries(text);
	let len = text.len() as u32;
	let mut qs: Vec<Vec<u32>> = bs.iter().map(|b| vec![*b]).collect();
	qs.push(vec![]);
	qs.push(vec![0, len]);
	qs.push(vec![len, 0]);
	qs.push(vec![len, len]);
	for _ in 0..6 {
		let k = 2 + rng.below(4);
		let mut q = Vec::new();
		for _ in 0..k {
			if !q.is_empty() && rng.chance(1, 5) {
				let d = *rng.pick(&q);
				q.push(d);
			} else {
				q.push(*rng.pick(&bs));
			}
		}
		qs.push(q);
	}
	// not on a character boundary / past the end: the model must still say what the code does
	let non: Vec<u32> = (0..=len + 2).filter(|o| !bs.contains(o)).collect();
	if !non.is_empty() {
		for _ in 0..2 {
			let mut q = vec![*rng.pick(&non)];
			if rng.chance(1, 2) {
				q.push(*rng.pick(&bs));
			}
			if rng.chance(1, 2) {
				q.insert(0, *rng.pick(&bs));
			}
			qs.push(q);
		}
	}
	qs
}

/// queries whose offsets are all character boundaries go into one case (model + reference);
/// the others into a second one (model only: no reference meaning for such offsets)
fn loc_map_case(w: &mut CaseWriter, text: &str, qs: &[Vec<u32>]) {
	let bs = boundaries(text);
	let (valid, invalid): (Vec<Vec<u32>>, Vec<Vec<u32>>) =
		qs.iter().cloned().partition(|q| q.iter().all(|o| bs.contains(o)));
	loc_map_case1(w, text, &valid, "valid");
	if !invalid.is_empty() {
		loc_map_case1(w, text, &invalid, "invalid");
	}
}

fn loc_map_case1(w: &mut CaseWriter, text: &str, qs: &[Vec<u32>], via: &str) {
	let src = source(text);
	let r = guarded(|| {
		let mut locs = Vec::new();
		let mut lines = Vec::new();
		for q in qs {
			let l = map(&src, q);
			lines.push(l.iter().map(|x| x.line).collect::<Vec<_>>());
			locs.push(
				l.iter()
					.map(|x| vec![x.offset, x.line, x.column, x.line_start_offset, x.line_end_offset])
					.collect::<Vec<_>>(),
			);
		}
		(locs, lines)
	});
	let ans = match r {
		Ok((locs, lines)) => json!({"locs": locs, "lines": lines}),
		Err(p) => json!({"panic": p}),
	};
	w.case(
		json!({"op":"loc.map","via":via,"text":cps(text),"queries":qs,"size":text.chars().count(),"_src":text}),
		ans,
	);
}

fn synth_error(src: &Source, spans: &[(u32, u32)]) -> Error {
	let mut e = Error::new(ErrorKind::RuntimeError("x".into()));
	for (a, b) in spans {
		e.trace_mut().0.push(StackTraceElement {
			location: Some(Span(src.clone(), *a, *b)),
			desc: "D".to_string(),
		});
	}
	e
}

fn loc_frame_case(w: &mut CaseWriter, rng: &mut Rng, text: &str) {
	let bs = boundaries(text);
	let mut spans: Vec<(u32, u32)> = Vec::new();
	for _ in 0..8 {
		let i = rng.below(bs.len());
		let cap = if rng.chance(1, 2) { 4 } else { 64 };
		let j = i + rng.below((bs.len() - i).min(cap));
		spans.push((bs[i], bs[j]));
	}
	let src = source(text);
	let r = guarded(|| compact().format(&synth_error(&src, &spans)).expect("fmt"));
	let sp: Vec<Vec<u32>> = spans.iter().map(|(a, b)| vec![*a, *b]).collect();
	let ats: Vec<u32> = spans.iter().map(|(a, _)| *a).collect();
	match r {
		Ok(rendered) => {
			let fr = frames(&rendered, "virtual:V:");
			let printed: Vec<&str> = fr.iter().map(|f| f.0.as_str()).collect();
			w.case(
				json!({"op":"loc.frame","text":cps(text),"spans":sp,"size":text.chars().count(),"_src":text}),
				json!({"printed": printed}),
			);
			let starts: Vec<Value> = spans
				.iter()
				.enumerate()
				.map(|(k, (a, _))| {
					start_json(text, *a as usize, fr.get(k).and_then(|f| parse_start(&f.0)))
				})
				.collect();
			w.case(
				json!({"op":"loc.start","via":"frame","text":cps(text),"at":ats,"size":text.chars().count(),"_src":text}),
				json!({"start": starts, "_rendered": rendered}),
			);
		}
		Err(p) => w.case(
			json!({"op":"loc.frame","text":cps(text),"spans":sp,"size":text.chars().count(),"_src":text}),
			json!({"panic": p}),
		),
	}
}

// ---------------------------------------------------------------------------------------------
// planted programs

const FILLER: &[&str] = &[
	"// plain comment\n",
	"// commentaire accentué éèà\n",
	"# 中文 comment 😀\n",
	"\n",
	"\r\n",
	"   \t\n",
	"/* block\n   é multi-line\n*/\n",
	"/* ascii block */\n",
	"local s%d = \"ééééééééé\";\n",
	"local s%d = \"plain\";\r\n",
	"local s%d = 'x€y😀z';\n",
	"local s%d = |||\n  text é block\n  second 中 line\n|||;\n",
	"local s%d = [1, 2,\n  3];\n",
	"local s%d = { a: 1, \"ключ\": 2 };\n",
];
const LINE_PREFIX: &[&str] = &[
	"",
	"",
	"  ",
	"\t",
	"local q = 1; ",
	"/* c */ ",
	"/* é */ ",
	"local e_s = \"é\"; ",
	"local w = \"ü😀\"; ",
	"local w = 'a'; \t",
];
const SUFFIX: &[&str] = &["", "\n", "\r\n", "\n// trailing é\n", " // same line é", "\n\n/* 😀 */", " # 中"];

#[derive(Clone, Copy, Debug, PartialEq, Eq)]
enum Plant {
	Error,
	Assert,
	ObjAssert,
	Call,
	Syntax,
	SyntaxEof,
	Trace,
	Field,
}

struct Planted {
	text: String,
	/// (frame description to look for, byte offset the frame must start at)
	expect: Vec<(&'static str, usize)>,
	kind: Plant,
	nonascii_before: bool,
	nonascii_on: bool,
	crlf: bool,
}

fn gen_planted(rng: &mut Rng, kind: Plant) -> Planted {
	let mut text = String::new();
	let mut expect = Vec::new();
	let mut n = 0;
	// definition used by the Call plant sits in the filler region: its body is a second known spot
	let nfill = rng.below(6);
	let def_at = rng.below(nfill + 1);
	for i in 0..=nfill {
		if kind == Plant::Call && i == def_at {
			let pre = *rng.pick(&["", "  ", "/* é */ "]);
			text.push_str(pre);
			text.push_str("local boom(x) = ");
			if rng.chance(1, 2) {
				text.push_str("\n   ");
			}
			expect.push(("error statement", text.len()));
			text.push_str("error 'in callee';\n");
		}
		if i < nfill {
			let f = rng.pick(FILLER).replace("%d", &n.to_string());
			n += 1;
			text.push_str(&f);
		}
	}
	let before_len = text.len();
	let prefix = *rng.pick(LINE_PREFIX);
	text.push_str(prefix);
	let at = text.len();
	let multi = rng.chance(1, 3);
	let nl = if rng.chance(1, 3) { "\r\n" } else { "\n" };
	match kind {
		Plant::Error => {
			expect.push(("error statement", at));
			if multi {
				text.push_str(&format!("error{nl}  \"boom é\" +{nl}  \"x\""));
			} else {
				text.push_str("error \"boom é\"");
			}
		}
		Plant::Assert => {
			text.push_str("assert ");
			if multi {
				text.push_str(nl);
				text.push_str("    ");
			}
			expect.push(("assertion failure", text.len()));
			text.push_str("1 == 2 : \"mé\"; 3");
		}
		Plant::ObjAssert => {
			text.push_str("{ ");
			if multi {
				text.push_str(nl);
				text.push_str("  ");
			}
			text.push_str("assert ");
			expect.push(("assertion failure", text.len()));
			text.push_str("self.a == 2 : 'ü', a: 1 }");
		}
		Plant::Call => {
			// the call frame is labelled with the argument list `(…)`
			expect.push(("function <boom> call", at + "boom".len()));
			if multi {
				text.push_str(&format!("boom({nl}  1{nl})"));
			} else {
				text.push_str("boom(1)");
			}
		}
		Plant::Syntax => {
			// (text, offset of the token the parser cannot accept)
			let (t, d) = *rng.pick(&[(")", 0), ("]", 0), ("}", 0), ("local = 3; 1", 6), ("1 1", 2), ("[1, 2 3]", 6)]);
			text.push_str("local ok = 1; ");
			expect.push(("<syntax>", text.len() + d));
			text.push_str(t);
		}
		Plant::SyntaxEof => {
			// input ends where an operand is required: the error is reported at the end of the text
			// (which never ends in a newline here), possibly right after a multi-byte character
			let t = *rng.pick(&["1 +", "1 + // é", "[1, 2", "{ a: 1, // 中\n  b: /* 😀 */", "local z = /* é*/", "f(1, 2 #ü"]);
			text.push_str("local ok = 1; ");
			text.push_str(t);
			expect.push(("<syntax>", text.len()));
		}
		Plant::Trace => {
			expect.push(("<trace>", at));
			if multi {
				text.push_str(&format!("std.trace({nl}  \"mé\",{nl}  1)"));
			} else {
				text.push_str("std.trace(\"mé\", 1)");
			}
		}
		Plant::Field => {
			text.push_str("{ ");
			if multi {
				text.push_str(nl);
				text.push_str("  ");
			}
			text.push_str("a: 1, b: ");
			expect.push(("error statement", text.len()));
			text.push_str("error 'fé' }.b");
		}
	}
	if kind != Plant::SyntaxEof {
		text.push_str(*rng.pick(SUFFIX));
	}
	let before = &text[..before_len];
	Planted {
		nonascii_before: !before.is_ascii(),
		nonascii_on: !prefix.is_ascii(),
		crlf: before.contains("\r\n"),
		text,
		expect,
		kind,
	}
}

#[derive(jrsonnet_gcmodule::Acyclic)]
struct CapturePrinter(std::cell::RefCell<Vec<Option<usize>>>);
impl TracePrinter for CapturePrinter {
	fn print_trace(&self, loc: CallLocation, _value: IStr) {
		// exactly what StdTracePrinter::print_trace does with the location
		let line = loc.0.map(|l| l.0.map_source_locations(&[l.1])[0].line);
		self.0.borrow_mut().push(line);
	}
}

fn new_state_with(printer: Rc<dyn TracePrinter>) -> State {
	let mut s = State::builder();
	let ci = jrsonnet_stdlib::ContextInitializer::new(PathResolver::new_cwd_fallback());
	ci.settings_mut().trace_printer = printer;
	s.context_initializer(ci)
		.import_resolver(jrsonnet_evaluator::FileImportResolver::default());
	s.build()
}

fn rendered_error(s: &State, text: &str) -> Result<Option<String>, String> {
	guarded(|| {
		let r = s
			.evaluate_snippet("V".to_owned(), text.to_owned())
			.and_then(|v| v.manifest(jrsonnet_evaluator::manifest::JsonFormat::minify()));
		match r {
			Ok(_) => None,
			Err(e) => Some(compact().format(&e).expect("fmt")),
		}
	})
}

/// location text of the frame looked for: for "<syntax>" the one line below the message
fn find_frame(rendered: &str, desc: &str) -> Option<(u64, u64)> {
	if desc == "<syntax>" {
		let l = rendered.lines().nth(1)?.trim();
		let loc = l.strip_prefix("virtual:V:")?;
		return parse_start(loc);
	}
	frames(rendered, "virtual:V:")
		.iter()
		.find(|f| f.1 == desc)
		.and_then(|f| parse_start(&f.0))
}

fn planted_case(w: &mut CaseWriter, s: &State, cap: &CapturePrinter, p: &Planted) {
	let ats: Vec<usize> = p.expect.iter().map(|e| e.1).collect();
	let size = p.text.chars().count();
	if p.kind == Plant::Trace {
		cap.0.borrow_mut().clear();
		let r = guarded(|| s.evaluate_snippet("V".to_owned(), p.text.clone()).map(|_| ()));
		let got = cap.0.borrow().clone();
		let ans = match (r, got.first()) {
			(Ok(Ok(())), Some(Some(l))) => json!({"line":[l]}),
			(Ok(Ok(())), _) => json!({"line":["no-trace"]}),
			(Ok(Err(e)), _) => json!({"line":[format!("error: {}", e.error())]}),
			(Err(pn), _) => json!({"panic": pn}),
		};
		w.case(
			json!({"op":"loc.line","via":"std.trace","text":cps(&p.text),"at":ats,"size":size,"_src":p.text}),
			ans,
		);
		return;
	}
	let ans = match rendered_error(s, &p.text) {
		Ok(Some(rendered)) => {
			let starts: Vec<Value> = p
				.expect
				.iter()
				.map(|(d, at)| start_json(&p.text, *at, find_frame(&rendered, d)))
				.collect();
			json!({"start": starts, "_rendered": rendered})
		}
		Ok(None) => json!({"start": ["no-error"]}),
		Err(pn) => json!({"panic": pn}),
	};
	w.case(
		json!({"op":"loc.start","via":format!("{:?}", p.kind),"text":cps(&p.text),"at":ats,"size":size,"_src":p.text}),
		ans,
	);
}

const KINDS: &[Plant] = &[
	Plant::Error,
	Plant::Assert,
	Plant::ObjAssert,
	Plant::Call,
	Plant::Syntax,
	Plant::SyntaxEof,
	Plant::Trace,
	Plant::Field,
];

fn run_loc(opts: &Opts) {
	let mut w = CaseWriter::new(&opts.out);
	let mut rng = Rng::new(opts.seed);
	let mut hist = BTreeMap::<String, usize>::new();
	macro_rules! bump {
		($k:expr) => {
			*hist.entry(($k).to_string()).or_default() += 1
		};
	}

	// fixed witnesses first (the theorems' counterexamples / non-vacuity examples are replayed here)
	let fixed: &[&str] = &[
		"",
		"\n",
		"a",
		"é",
		"\"ééééééééé\" +\n error \"boom\"",
		"hello world\n_______________________________________________________",
		"a\r\nb\r\n",
		"😀\n😀",
		"\n\n\n",
		"é\né\né",
	];
	for t in fixed {
		let qs = gen_queries(&mut rng, t);
		loc_map_case(&mut w, t, &qs);
		loc_frame_case(&mut w, &mut rng, t);
		bump!("text.fixed");
	}
	let n_text = if opts.thorough() { 12000 } else { 1500 };
	for i in 0..n_text {
		let maxlen = if i % 10 == 0 { 120 } else { 24 };
		let t = gen_text(&mut rng, maxlen);
		bump!(if t.is_ascii() { "text.ascii" } else { "text.multibyte" });
		if t.contains("\r\n") {
			bump!("text.crlf");
		}
		let qs = gen_queries(&mut rng, &t);
		loc_map_case(&mut w, &t, &qs);
		loc_frame_case(&mut w, &mut rng, &t);
	}

	// planted programs, in-process
	let cap = Rc::new(CapturePrinter(Default::default()));
	let s = new_state_with(cap.clone());
	let _g = s.enter();
	let n_plant = if opts.thorough() { 20000 } else { 2500 };
	for i in 0..n_plant {
		let kind = KINDS[i % KINDS.len()];
		let p = gen_planted(&mut rng, kind);
		bump!(&format!("plant.{:?}", p.kind));
		if p.nonascii_before {
			bump!("plant.nonascii_before");
		}
		if p.nonascii_on {
			bump!("plant.nonascii_on_line");
		}
		if p.crlf {
			bump!("plant.crlf_before");
		}
		planted_case(&mut w, &s, &cap, &p);
	}
	// which offset every kind of syntax error reports (own PRNG stream: the other cases keep their seeds)
	let mut rng_syn = Rng::new(opts.seed ^ 0x517A_17);
	c17_synkind::run_synkinds(&mut w, &mut rng_syn, &s, opts.thorough(), &mut hist);
	drop(_g);
	// traces over several files: planted multi-file programs and synthetic multi-source traces
	c17_multi::run_multi(&mut w, &mut rng, &opts.out, opts.thorough(), &mut hist);
	c17_multi::run_synth(&mut w, &mut rng, opts.thorough(), &mut hist);
	// traces over several sources that share the DISPLAYED name (own PRNG stream: the cases above keep their seeds)
	let mut rng_same = Rng::new(opts.seed ^ 0x5A3E_17);
	c17_same::run_same_synth(&mut w, &mut rng_same, opts.thorough(), &mut hist);
	c17_same::run_same_programs(&mut w, &mut rng_same, &opts.out, opts.thorough(), &mut hist);
	let meta = json!({
		"engine":"c17","cases":w.n,"texts":n_text + fixed.len(),"planted":n_plant,"hist":hist,
		"rule":"texts over {ASCII, tab, LF, CRLF, lone CR, 2/3/4-byte chars, combining mark, U+2028, U+0085} up to 120 chars: map_source_locations at every character boundary singly and in tuples of 2..5 (unsorted, repeated, off-boundary, past the end) vs model and reference; 8 synthetic trace frames per text rendered by CompactFormat vs print model and reference start; programs with error / assert / object assert / failing call (callee + call site) / syntax error / std.trace / field error planted after comment, blank, CRLF, multi-byte filler lines and after ASCII or non-ASCII text on the same line; multi-file programs (main + 1-2 imported libraries, main as file or as virtual snippet) where the failing construct in the library and the call/import in the importer are padded to IDENTICAL start/end byte offsets on different lines/columns: every frame's line/column vs the reference of ITS OWN file through CompactFormat, JsFormat (column convention: finding) and HiDocFormat (observed highlight); synthetic traces over 2-3 virtual sources with shared spans: whole CompactFormat output vs the writeTrace model; SAME DISPLAYED NAME: synthetic traces over 2-4 sources that are all displayed alike (virtual:S, fifo(<inline code>), files of one base name in different directories, one path with several texts) under PathResolver FileName / Absolute / Relative, texts related by heads of equal byte length (same offsets, other line/column) or of equal line structure (same line/column, other offsets), repeated frames: whole CompactFormat output vs writeTrace, every start vs the reference of its own text, JsFormat; real programs (ext-code chains, functions through tla-codes, tla+ext, two snippets under one name, import and call chains through equally named files) in-process under each resolver through CompactFormat, JsFormat and HiDocFormat (observed); ImportSyntaxError at arbitrary offsets vs the syntaxErrorLoc model; WHICH offset each kind of syntax error of the default parser reports: 86 token templates (eat ) ] } ; = then in : ( / identifier / string escape / infinite number / duplicate parameter = the repeated occurrence / positional after named / field name / object comprehension = closing brace / unexpected token / junk after the program / end of input = end of the last token / 16 lexer error kinds = first byte of the lexeme / no token = offset 0), offender at an offset known by construction after header lines of varying length, tokens on one line, one per line or separated by generated trivia (tab, LF, CRLF, block and line comments with multi-byte characters): raw ParseError offset and CompactFormat location vs the offender's offset, its reference line/column and the syntaxErrorLoc model (syn.kind)"
	});
	w.finish(meta, &opts.out);
}

// ---------------------------------------------------------------------------------------------
// lexer tiling / rowan losslessness / AST spans

const TOKENS: &[&str] = &[
	"local", "function", "if", "then", "else", "error", "assert", "self", "super", "$", "import",
	"importstr", "importbin", "tailstrict", "in", "for", "null", "true", "false", "x", "_y1", "é",
	"foo.bar", "0", "1.5", "1e10", "1e", "1.", "0x1", "1_000", "+", "-", "*", "/", "%", "==", "!=",
	"<=", ">=", "<<", ">>", "&&", "||", "!", "~", "^", "&", "|", "=", ":", "::", ":::", "+:", ";", ",",
	".", "(", ")", "[", "]", "{", "}", "??", "?.", "\"str\"", "\"esc \\n \\u00e9 \\\" é\"", "'s'",
	"'it\\'s €'", "@\"v\"\"q\"", "@'v''q é'", "\"unterminated", "'unterminated é", "@\"unterminated",
	"|||\n  text\n|||", "|||\n  é text\n   more 😀\n|||", "|||-\n\ttab\n\t|||", "|||\n\n  blank first\n\n  x\n|||",
	"|||\nno indent\n|||", "||| x\n  a\n|||", "|||\n  unterminated é", "|||", "|||\n  a\n b\n|||",
	"|||\r\n  crlf\r\n|||", "|||\n  é", "|||-", "|||\n  a\n  |||", "|||\n é\n é|||",
	"// comment é", "# hash 中", "/* block é */", "/* multi\n line */", "/* unterminated é",
	"/**/", "/*/", " ", "  ", "\t", "\n", "\r\n", "\r", "\u{a0}", "\u{2028}", "\u{feff}", "😀", "\u{301}",
	"`", "\\", "\u{0}", "\u{7f}",
];

fn gen_soup(rng: &mut Rng) -> String {
	let n = rng.below(14);
	let mut s = String::new();
	for _ in 0..n {
		s.push_str(*rng.pick(TOKENS));
		match rng.below(6) {
			0 => {}
			1 => s.push('\n'),
			2 => s.push_str("  "),
			_ => s.push(' '),
		}
	}
	s
}

const PROGRAMS: &[&str] = &[
	"local f(x, y=2) = x + y; { a: f(1), [\"b\" + \"é\"]: [i for i in [1, 2, 3] if i > 1], c+: { d: $.a } }",
	"local é = \"ü\"; // 中文\n{\n  s: |||\n    text é\n  |||,\n  t: 'q' % [1],\n  assert self.s != '' : 'm',\n}",
	"function(a, b) if a then b else error 'é' + std.toString(b)[1:2:1]",
	"local a = import 'x.libsonnet', b = importstr \"é.txt\"; a { x: super.x, y:: 1, z::: 2 }.y tailstrict",
	"/* lead é */ [1, 2.5e3, -1, !true, ~1, \"a\" in {a: 1}] # tail 😀\r\n",
];

fn mutate(rng: &mut Rng, p: &str) -> String {
	let cs: Vec<char> = p.chars().collect();
	let mut out: Vec<char> = cs.clone();
	for _ in 0..1 + rng.below(3) {
		if out.is_empty() {
			break;
		}
		let i = rng.below(out.len());
		match rng.below(4) {
			0 => {
				out.remove(i);
			}
			1 => out.insert(i, *rng.pick(&['é', '|', '"', '\n', '😀', '/', '*', '\'', '\\'])),
			2 => out.truncate(i),
			_ => {
				let j = rng.below(out.len());
				out.swap(i, j);
			}
		}
	}
	out.into_iter().collect()
}

fn extract_spans(dbg: &str) -> Vec<Vec<u32>> {
	let mut out = Vec::new();
	let pat = "virtual:V:";
	let mut rest = dbg;
	while let Some(i) = rest.find(pat) {
		rest = &rest[i + pat.len()..];
		let a: String = rest.chars().take_while(char::is_ascii_digit).collect();
		let r2 = &rest[a.len()..];
		if let Some(r3) = r2.strip_prefix('-') {
			let b: String = r3.chars().take_while(char::is_ascii_digit).collect();
			if let (Ok(a), Ok(b)) = (a.parse(), b.parse()) {
				out.push(vec![a, b]);
			}
		}
	}
	out
}

fn lex_case(w: &mut CaseWriter, input: &str, origin: &str) -> (bool, usize) {
	let size = input.chars().count();
	let r = guarded(|| {
		jrsonnet_lexer::Lexer::new(input)
			.map(|l| vec![l.range.0, l.range.1])
			.collect::<Vec<Vec<u32>>>()
	});
	let mut n = 0;
	let mut ok = true;
	match r {
		Ok(ranges) => {
			n = ranges.len();
			w.case(
				json!({"op":"lex.tile","origin":origin,"len":input.len(),"ranges":ranges,"text":cps(input),"size":size,"_src":input}),
				json!({"ok": true}),
			);
		}
		Err(p) => {
			// a panic loses the text: a failed observation (these ranges never tile)
			ok = false;
			w.case(
				json!({"op":"lex.tile","origin":origin,"len":input.len(),"ranges":[[0,0],[1,0]],"text":cps(input),"size":size,"_src":input,"_panic":p}),
				json!({"panic": p}),
			);
		}
	}
	let t = guarded(|| {
		let (file, _errors) = jrsonnet_rowan_parser::parse(input);
		use jrsonnet_rowan_parser::AstNode;
		file.syntax().to_string()
	});
	match t {
		Ok(tree) => w.case(
			json!({"op":"tree.text","origin":origin,"text":cps(input),"tree":cps(&tree),"size":size,"_src":input}),
			json!({"ok": true}),
		),
		Err(p) => {
			ok = false;
			w.case(
				json!({"op":"tree.text","origin":origin,"text":cps(input),"tree":null,"size":size,"_src":input}),
				json!({"panic": p}),
			);
		}
	}
	(ok, n)
}

fn span_case(w: &mut CaseWriter, input: &str) -> Option<usize> {
	let src = source(input);
	let r = guarded(|| {
		jrsonnet_ir_parser::parse(input, &jrsonnet_ir_parser::ParserSettings { source: src.clone() })
			.map(|e| format!("{e:?}"))
	});
	match r {
		Ok(Ok(dbg)) => {
			let spans = extract_spans(&dbg);
			let n = spans.len();
			w.case(
				json!({"op":"ast.spans","text":cps(input),"spans":spans,"size":input.chars().count(),"_src":input}),
				json!({"ok": true}),
			);
			Some(n)
		}
		Ok(Err(_)) => None,
		Err(p) => {
			w.case(
				json!({"op":"ast.spans","text":cps(input),"spans":[[1,0]],"size":input.chars().count(),"_src":input,"_panic":p}),
				json!({"panic": p}),
			);
			None
		}
	}
}

fn run_lex(opts: &Opts) {
	let mut w = CaseWriter::new(&opts.out);
	let mut rng = Rng::new(opts.seed ^ 0x17);
	let mut hist = BTreeMap::<String, usize>::new();
	let mut tokens = 0usize;
	let mut spans = 0usize;
	let mut parsed = 0usize;
	let n = if opts.thorough() { 40000 } else { 4000 };
	for t in TOKENS {
		let (_, k) = lex_case(&mut w, t, "token");
		tokens += k;
	}
	for p in PROGRAMS {
		lex_case(&mut w, p, "program");
		if let Some(k) = span_case(&mut w, p) {
			spans += k;
			parsed += 1;
		}
	}
	for i in 0..n {
		let (input, origin) = match i % 4 {
			0 | 1 => (gen_soup(&mut rng), "soup"),
			2 => (gen_text(&mut rng, 30), "random"),
			_ => {
				let p = *rng.pick(PROGRAMS);
				(mutate(&mut rng, p), "mutated")
			}
		};
		*hist.entry(origin.to_string()).or_default() += 1;
		let (_, k) = lex_case(&mut w, &input, origin);
		tokens += k;
		if let Some(k) = span_case(&mut w, &input) {
			spans += k;
			parsed += 1;
		}
	}
	// valid planted programs give many spans
	for i in 0..n / 4 {
		let p = gen_planted(&mut rng, KINDS[i % KINDS.len()]);
		if p.kind != Plant::Syntax && p.kind != Plant::SyntaxEof {
			lex_case(&mut w, &p.text, "planted");
			if let Some(k) = span_case(&mut w, &p.text) {
				spans += k;
				parsed += 1;
			}
		}
	}
	// the text-block scanner against its model
	c17_block::run_blocks(&mut w, &mut rng, opts.thorough(), &mut hist);
	let meta = json!({
		"engine":"c17lex","cases":w.n,"origin_hist":hist,"tokens_seen":tokens,"ir_parsed":parsed,"ast_spans_seen":spans,
		"rule":"every entry of a 110-token vocabulary (keywords, operators, numbers, all string forms incl. unterminated, 17 text-block shapes incl. malformed/CRLF/multi-byte, comments, odd whitespace, stray bytes) alone; token soups of up to 14 of them; random strings; 1-3 character-level mutations of 5 programs; planted programs: Lexer ranges must tile [0,len) on char boundaries and rowan SourceFile text must equal the input; every span in the parsed IR must lie inside the text on char boundaries; text-block bodies from a grammar (|||- / header whitespace incl. CR / missing or garbage header / leading and inner blank lines / indents of spaces, tabs and mixes / deeper, shorter and different indents / CRLF lines and CRLF blank lines / non-ASCII, NBSP and ||| inside lines / terminator shorter than, equal to (= content) or unrelated to the indent / missing terminator / unterminated last line / trailing text) plus one-character mutations: result class and bytes bumped by the real lexer, truncate flag and lines of collect_lexed_str_block, and the evaluated string value vs the Lean scanner model (blk.scan)"
	});
	w.finish(meta, &opts.out);
}

// ---------------------------------------------------------------------------------------------
// the jrsonnet binary

fn run_cli(opts: &Opts) {
	let mut w = CaseWriter::new(&opts.out);
	let mut rng = Rng::new(opts.seed ^ 0x1717);
	let bin = std::path::PathBuf::from(std::env::var("VERIF_BIN_DIR").unwrap_or_default()).join("jrsonnet");
	let dir = opts.out.join("cli");
	std::fs::create_dir_all(&dir).expect("mkdir");
	let n = if opts.thorough() { 1400 } else { 210 };
	let mut hist = BTreeMap::<String, usize>::new();
	for i in 0..n {
		let kind = KINDS[i % KINDS.len()];
		let p = gen_planted(&mut rng, kind);
		*hist.entry(format!("{:?}", p.kind)).or_default() += 1;
		let file = dir.join("p.jsonnet");
		std::fs::write(&file, &p.text).expect("write");
		let outp = std::process::Command::new(&bin).arg(&file).output();
		let ats: Vec<usize> = p.expect.iter().map(|e| e.1).collect();
		let size = p.text.chars().count();
		let stderr = match outp {
			Ok(o) => String::from_utf8_lossy(&o.stderr).into_owned(),
			Err(e) => {
				w.case(
					json!({"op":"loc.line","via":"cli","text":cps(&p.text),"at":ats,"size":size}),
					json!({"spawn": e.to_string()}),
				);
				continue;
			}
		};
		if p.kind == Plant::Trace {
			// TRACE: <path>:<line> <msg>
			let line = stderr.lines().find_map(|l| {
				let r = l.strip_prefix("TRACE: ")?;
				let r = r.strip_suffix(" mé")?;
				r.rsplit(':').next()?.parse::<u64>().ok()
			});
			w.case(
				json!({"op":"loc.line","via":"cli","text":cps(&p.text),"at":ats,"size":size,"_src":p.text}),
				match line {
					Some(l) => json!({"line":[l], "_stderr": stderr}),
					None => json!({"line":["no-trace"], "_stderr": stderr}),
				},
			);
		} else {
			// frames: "    <path>:LOC: desc" ; syntax error: second line "    <path>:LOC"
			let path_s = file.to_string_lossy().to_string();
			let mut found: Vec<(String, String)> = Vec::new();
			for l in stderr.lines().skip(1) {
				let t = l.trim_start();
				if let Some(i) = t.find("p.jsonnet:") {
					let rest = &t[i + "p.jsonnet:".len()..];
					let (loc, desc) = match rest.find(' ') {
						Some(i) => (&rest[..i], rest[i..].trim_start()),
						None => (rest, ""),
					};
					found.push((loc.trim_end_matches(':').to_string(), desc.to_string()));
				}
			}
			let _ = path_s;
			let starts: Vec<Value> = p
				.expect
				.iter()
				.map(|(d, at)| {
					let got = if *d == "<syntax>" {
						found.first().and_then(|f| parse_start(&f.0))
					} else {
						found.iter().find(|f| f.1 == *d).and_then(|f| parse_start(&f.0))
					};
					start_json(&p.text, *at, got)
				})
				.collect();
			w.case(
				json!({"op":"loc.start","via":format!("cli.{:?}", p.kind),"text":cps(&p.text),"at":ats,"size":size,"_src":p.text}),
				json!({"start": starts, "_stderr": stderr}),
			);
		}
	}
	// multi-file programs through the binary
	let n_multi = if opts.thorough() { 600 } else { 90 };
	for i in 0..n_multi {
		let m = c17_multi::gen_multi(&mut rng, i, "liba.libsonnet");
		let d = dir.join("mf").join(format!("{i}"));
		c17_multi::write_files(&d, &m);
		*hist.entry(format!("multi.{}", m.kind)).or_default() += 1;
		*hist.entry(format!("multi.{}", if m.collide { "equal-offsets" } else { "control" })).or_default() += 1;
		let labels: Vec<String> = m.files.iter().map(|f| format!("{}:", f.name)).collect();
		let mut cmd = std::process::Command::new(&bin);
		if i % 5 == 4 {
			cmd.arg("--trace-format").arg("compact");
		}
		match cmd.arg(d.join("main.jsonnet")).output() {
			Ok(o) => {
				let stderr = String::from_utf8_lossy(&o.stderr).into_owned();
				w.case(c17_multi::mstart_op(&m, "cli.multi"), c17_multi::mstart_answer(&m, &stderr, &labels));
			}
			Err(e) => w.case(c17_multi::mstart_op(&m, "cli.multi"), json!({"spawn": e.to_string()})),
		}
	}
	// several sources under one displayed name (ext-code / tla-code snippets, equally named files)
	let mut rng_same = Rng::new(opts.seed ^ 0x5A3E_C1);
	c17_same::run_same_cli(&mut w, &mut rng_same, &bin, &dir, opts.thorough(), &mut hist);
	// which offset every kind of syntax error reports, through the binary
	let mut rng_syn = Rng::new(opts.seed ^ 0x517A_C1);
	c17_synkind::run_synkinds_cli(&mut w, &mut rng_syn, &bin, &dir, opts.thorough(), &mut hist);
	let meta = json!({"engine":"c17cli","cases":w.n,"hist":hist,
		"rule":"programs whose frames lie in several sources displayed under ONE name (std.extVar chains over 2-4 --ext-code snippets, functions passed between 2-3 --tla-code snippets, tla+ext mixes, import/call chains through files all called lib.libsonnet; main as -e or file, relative or absolute; compact and explaining formats), planted spans with identical byte offsets on different lines/columns, or the same line/column at different offsets: every frame vs the reference of its own text; multi-file programs (main + 1-2 libraries, frames padded to identical byte offsets in different files) through the binary: every frame vs the reference of its own file; planted programs (same generator as c17) written to a file and run through the jrsonnet binary: line of `TRACE: file:line` (StdTracePrinter) and start line/column of the named frame in the stderr trace vs the reference; the syntax-error-kind templates of c17 (one per line and mixed separators) through the binary: the printed location vs the reference line/column of the offending token"});
	w.finish(meta, &opts.out);
}

pub fn run(opts: &Opts) {
	match opts.engine.as_str() {
		"c17lex" => run_lex(opts),
		"c17cli" => run_cli(opts),
		_ => run_loc(opts),
	}
}
