//! C16 — results are deterministic and independent of history.
//!
//! engine `c16`    (in-process, the real evaluator):
//!   * `det.fields`  : generated object expressions (literals with `:`/`::`/`:::` members, `+`,
//!                     `std.objectRemoveKey`) are evaluated with the field names pre-interned in a
//!                     shuffled order (so the address-keyed hash maps iterate differently); the layer
//!                     vector is read through `verif_core_shape`, `fields_ex(false/true)` is compared
//!                     with the Lean model of `fields_visibility`+`fields_ex` run under explicit
//!                     iteration permutations and with the per-name reference.
//!   * `det.suggest` : undefined-local / missing-field programs; the suggestion list carried by the
//!                     real `ErrorKind` is compared with the Lean ranking model (scores are the real
//!                     `strsim::jaro_winkler` values, passed as IEEE bit patterns).
//!   * `det.tla`     : `apply_tla` with an `FxHashMap` of arguments (unknown names, unresolvable
//!                     imports, unbound parameters): which error is reported vs the Lean model.
//!   * `det.hist`    : every generated program (values, errors, field listings, did-you-mean,
//!                     multi-error, stack-limited, imports) is evaluated in a fresh thread with a
//!                     fresh state, and again after randomised histories (successful, failing,
//!                     stack-limited programs, garbage collections) on fresh threads and on ONE
//!                     long-lived worker state, with differently sized/ordered pre-interned pools;
//!                     all renderings (manifested JSON or error text with trace) are handed to the
//!                     driver, which answers whether they are byte-identical.
//! engine `c16cli` : the `jrsonnet` binary, each program 8x in fresh processes (ASLR on);
//!                   stdout/stderr/exit status must be byte-identical (`det.repeat`).
use std::{
	collections::BTreeMap,
	path::{Path, PathBuf},
	process::Command,
	thread,
};

use jrsonnet_evaluator::{
	apply_tla,
	error::ErrorKind,
	manifest::JsonFormat,
	rustc_hash::FxHashMap,
	tla::TlaArg,
	trace::{CompactFormat, PathResolver, TraceFormat},
	FileImportResolver, IStr, State, Val,
};
use serde_json::{json, Value};

use crate::common::{guarded, CaseWriter, Opts, Rng};

const BIG_STACK: usize = 1 << 30;

// ---------------------------------------------------------------------------------------------
// fixtures

const LIBS: &[(&str, &str)] = &[
	("lib_ok.libsonnet", "{ f: 1, g: [self.f, 2], name_a: 'A', name_b:: 'B', abc1: 1, abc2: 2 }"),
	("lib_err.libsonnet", "error 'lib_err: top-level failure'"),
	("lib_lazy.libsonnet", "{ good: 1, bad: error 'lib_lazy: bad field', worse: self.nope, nope2: 2 }"),
	("lib_assert.libsonnet", "{ assert self.a > 1 : 'lib_assert: a too small', a: 1, b: 2 }"),
	("lib_syntax.libsonnet", "{ a: 1,, }"),
	("lib_cyc_a.libsonnet", "{ a: 1, b: (import 'lib_cyc_b.libsonnet').c }"),
	("lib_cyc_b.libsonnet", "{ c: (import 'lib_cyc_a.libsonnet').a + 1 }"),
	("lib_self.libsonnet", "(import 'lib_self.libsonnet')"),
	(
		"lib_deep.libsonnet",
		"local f(n) = if n == 0 then 0 else 1 + f(n - 1); { x: f(40), y: f(10), local v = f(60), z: v }",
	),
];

fn write_libs(dir: &Path) {
	std::fs::create_dir_all(dir).expect("mkdir lib");
	for (n, t) in LIBS {
		std::fs::write(dir.join(n), t).expect("write lib");
	}
}

fn mk_state(lib: &Path) -> State {
	let mut s = State::builder();
	s.context_initializer(jrsonnet_stdlib::ContextInitializer::new(PathResolver::FileName))
		.import_resolver(FileImportResolver::new(vec![lib.to_path_buf()]));
	s.build()
}

fn fmt() -> CompactFormat {
	CompactFormat {
		resolver: PathResolver::FileName,
		max_trace: 20,
		padding: 1,
	}
}

/// the complete observable of one evaluation: manifested JSON, or the error text with its trace
fn render(s: &State, code: &str) -> String {
	match guarded(|| -> Result<String, jrsonnet_evaluator::Error> {
		// as cmds/jrsonnet does: imports are served by the entered state (StateEnterGuard)
		let _g = s.try_enter();
		let v = s.evaluate_snippet("<p>".to_owned(), code.to_owned())?;
		v.manifest(JsonFormat::cli(
			2,
			#[cfg(feature = "exp-preserve-order")]
			false,
		))
	}) {
		Ok(Ok(t)) => format!("OK\n{t}"),
		Ok(Err(e)) => format!("ERR\n{}", fmt().format(&e).unwrap_or_else(|_| "<fmt>".into())),
		Err(p) => format!("PANIC\n{p}"),
	}
}

fn big<T: Send + 'static>(f: impl FnOnce() -> T + Send + 'static) -> T {
	thread::Builder::new()
		.stack_size(BIG_STACK)
		.spawn(f)
		.expect("spawn")
		.join()
		.expect("join")
}

// ---------------------------------------------------------------------------------------------
// program generator

const FAMS: &[&[&str]] = &[
	&["abc1", "abc2", "abc3", "abc4", "abc5", "abc"],
	&["name_a", "name_b", "name_c", "name_d", "name"],
	&["fooBar", "fooBaz", "fooBat", "fooBa", "foo"],
	&["alpha", "alpah", "alhpa", "aplha", "alph"],
	&["x1", "x2", "y1", "y2", "x"],
	&["value", "values", "valued", "valve", "valu"],
	// equal scores against the near misses: the ranking is decided by the tie-break alone
	&["ab1", "ab3", "ab4", "ab5", "ab6", "ab"],
];
const UFAMS: &[&[&str]] = &[&["é1", "é2", "é3", "é4", "é"], &["ключ1", "ключ2", "ключ3", "ключ"]];

fn shuffle<T>(rng: &mut Rng, v: &mut [T]) {
	for i in (1..v.len()).rev() {
		let j = rng.below(i + 1);
		v.swap(i, j);
	}
}

fn qf(n: &str) -> String {
	if n.is_ascii() {
		n.to_string()
	} else {
		format!("'{n}'")
	}
}

#[derive(Clone, Debug)]
struct Lit {
	fields: Vec<(String, u8, String)>, // name, vis 0 `:` 1 `::` 2 `:::`, body
}
#[derive(Clone, Debug)]
enum Obj {
	Lit(Lit),
	Add(Box<Obj>, Box<Obj>),
	Rm(Box<Obj>, String),
}

fn obj_src(o: &Obj) -> String {
	match o {
		Obj::Lit(l) => {
			let mut s = String::from("{");
			for (i, (n, v, b)) in l.fields.iter().enumerate() {
				if i > 0 {
					s.push_str(", ");
				}
				s.push_str(&qf(n));
				s.push_str(match v {
					0 => ": ",
					1 => ":: ",
					_ => "::: ",
				});
				s.push_str(b);
			}
			s.push('}');
			s
		}
		Obj::Add(a, b) => format!("({} + {})", obj_src(a), obj_src(b)),
		Obj::Rm(a, n) => format!("std.objectRemoveKey({}, '{}')", obj_src(a), n),
	}
}
fn obj_names(o: &Obj, out: &mut Vec<String>) {
	match o {
		Obj::Lit(l) => {
			for f in &l.fields {
				if !out.contains(&f.0) {
					out.push(f.0.clone());
				}
			}
		}
		Obj::Add(a, b) => {
			obj_names(a, out);
			obj_names(b, out);
		}
		Obj::Rm(a, n) => {
			obj_names(a, out);
			if !out.contains(n) {
				out.push(n.clone());
			}
		}
	}
}

/// `errs`: 0 = all bodies are values, otherwise roughly that share (in 8ths) of bodies fail
fn gen_lit(rng: &mut Rng, fam: &[&str], errs: usize, all_visible: bool) -> Lit {
	let mut names: Vec<&str> = fam.to_vec();
	shuffle(rng, &mut names);
	let k = 1 + rng.below(names.len());
	let mut fields = Vec::new();
	for n in &names[..k] {
		let vis = if all_visible {
			0
		} else {
			match rng.below(6) {
				0 => 1,
				1 => 2,
				_ => 0,
			}
		};
		let body = if rng.below(8) < errs {
			match rng.below(4) {
				0 => format!("error 'E_{n}'"),
				1 => "1 / 0".to_string(),
				2 => format!("self.missing_{n}"),
				_ => format!("[1][{}]", 1 + rng.below(3)),
			}
		} else {
			format!("'v_{n}'")
		};
		fields.push(((*n).to_string(), vis, body));
	}
	Lit { fields }
}
fn gen_obj(rng: &mut Rng, depth: usize, errs: usize, all_visible: bool) -> Obj {
	let fam: &[&str] = if rng.chance(1, 6) {
		UFAMS[rng.below(UFAMS.len())]
	} else {
		FAMS[rng.below(FAMS.len())]
	};
	gen_obj_fam(rng, fam, depth, errs, all_visible)
}
fn gen_obj_fam(rng: &mut Rng, fam: &[&str], depth: usize, errs: usize, all_visible: bool) -> Obj {
	if depth == 0 || rng.chance(2, 5) {
		return Obj::Lit(gen_lit(rng, fam, errs, all_visible));
	}
	if rng.chance(3, 4) {
		Obj::Add(
			Box::new(gen_obj_fam(rng, fam, depth - 1, errs, all_visible)),
			Box::new(gen_obj_fam(rng, fam, depth - 1, errs, all_visible)),
		)
	} else {
		let n = fam[rng.below(fam.len())].to_string();
		Obj::Rm(Box::new(gen_obj_fam(rng, fam, depth - 1, errs, all_visible)), n)
	}
}

#[derive(Clone, Debug)]
struct Prog {
	class: &'static str,
	text: String,
}

fn listing_wrap(rng: &mut Rng, o: &str) -> String {
	match rng.below(16) {
		0 => format!("std.objectFields({o})"),
		1 => format!("std.objectFieldsAll({o})"),
		2 => o.to_string(),
		3 => format!("std.objectValues({o})"),
		4 => format!("std.objectKeysValuesAll({o})"),
		5 => format!("std.mapWithKey(function(k, v) k + '=' + v, {o})"),
		6 => format!("std.toString({o})"),
		7 => format!("std.manifestJsonMinified({o})"),
		8 => format!("std.manifestYamlDoc({o})"),
		9 => format!("std.manifestPython({o})"),
		10 => format!("std.length({o})"),
		11 => format!("std.prune({o} + {{ zz: null, yy: {{}} }})"),
		12 => format!("local o = {o}; [k + ':' + o[k] for k in std.objectFields(o)]"),
		13 => format!("local o = {o}; {{ [k + '_']: o[k] for k in std.objectFieldsAll(o) }}"),
		14 => format!("std.mergePatch({o}, {{ abc2: null, name_b: {{ q: 1 }}, x1: 'p' }})"),
		_ => format!("std.manifestTomlEx({{ t: {o} }}, ' ')"),
	}
}

fn gen_value(rng: &mut Rng) -> Prog {
	if rng.chance(3, 4) {
		let o = obj_src(&gen_obj(rng, 3, 0, false));
		Prog { class: "listing", text: listing_wrap(rng, &o) }
	} else {
		let a = rng.range(-50, 50);
		let b = rng.range(1, 9);
		let text = match rng.below(8) {
			0 => format!("std.sort([{a}, {b}, 3, -1, {a}])"),
			1 => format!("std.set(['b', 'a', 'c', 'a', 'n{b}'])"),
			2 => format!("std.join(',', [std.toString(i * {b}) for i in std.range(0, {b})])"),
			3 => format!("local f(x) = x * {a}; std.map(f, std.range(1, {b}))"),
			4 => format!("'%05d|%s|%x' % [{a}, 'n{b}', {b}]"),
			5 => format!("std.foldl(function(acc, x) acc + x, std.range(1, {b}), {a})"),
			6 => format!("{{ a: {a}, b: self.a + {b}, c: [self.b, $.a] }}"),
			_ => format!("std.setUnion(['n{b}', 'z'], ['a', 'z'])"),
		};
		Prog { class: "value", text }
	}
}

fn near_miss(rng: &mut Rng, fam: &[&str]) -> String {
	// a name that is not in the family but close to several members
	let base = fam[fam.len() - 1];
	match rng.below(4) {
		0 => format!("{base}_"),
		1 => format!("{base}0"),
		2 => base[..base.char_indices().last().map_or(0, |c| c.0)].to_string() + "q",
		_ => format!("{base}9"),
	}
}

fn gen_locals_prog(rng: &mut Rng) -> (String, Vec<Vec<String>>, String) {
	// nested scopes; returns (text, layers innermost first, missing name)
	let fam = FAMS[rng.below(FAMS.len())];
	let mut pool: Vec<&str> = fam.to_vec();
	shuffle(rng, &mut pool);
	let target = near_miss(rng, fam);
	// shadowing: one or two names are bound again in inner scopes (each scope is a hash map of its
	// own, so the candidate list holds the name once per scope that binds it)
	let shadow = rng.chance(1, 2);
	let nshadow = if shadow { 1 + rng.below(2) } else { 0 };
	let shadowed: Vec<&str> = pool.drain(..nshadow.min(pool.len().saturating_sub(1))).collect();
	let nl = if shadow { 2 + rng.below(3) } else { 1 + rng.below(3) };
	let mut layers: Vec<Vec<String>> = Vec::new();
	let mut text = String::new();
	let mut closers = String::new();
	let mut it = pool.into_iter();
	for li in 0..nl {
		let k = if shadow { rng.below(3) } else { 1 + rng.below(3) };
		let mut names: Vec<String> = Vec::new();
		for (si, sname) in shadowed.iter().enumerate() {
			// the first shadowed name is bound in the two outermost scopes at least
			if (si == 0 && li < 2) || rng.chance(2, 3) {
				names.push((*sname).to_string());
			}
		}
		names.extend(it.by_ref().take(k).map(str::to_string));
		if names.is_empty() {
			if shadow {
				continue;
			}
			break;
		}
		shuffle(rng, &mut names);
		if li % 2 == 1 && rng.chance(1, 2) {
			// a function layer
			text.push_str(&format!("(function({}) ", names.join(", ")));
			closers = format!(")({}){closers}", names.iter().map(|_| "0").collect::<Vec<_>>().join(", "));
		} else {
			text.push_str(&format!(
				"local {}; ",
				names.iter().map(|n| format!("{n} = 1")).collect::<Vec<_>>().join(", ")
			));
		}
		layers.insert(0, names);
	}
	// the place of the reference does not add a scope of bindings
	let body = match rng.below(6) {
		0 => format!("{{ x: {target} }}.x"),
		1 => format!("[{target}][0]"),
		2 => format!("(if true then {target} else 0)"),
		_ => target.clone(),
	};
	text.push_str(&body);
	text.push_str(&closers);
	(text, layers, target)
}

// ---------------------------------------------------------------------------------------------
// error texts that are assembled by iterating hash maps (observation: byte-identical in every
// process and after every interning history)

const STD_NAMES: &[&str] = &[
	"length", "objectFields", "objectFieldsAll", "objectHas", "objectHasAll", "objectValues", "objectValuesAll",
	"objectKeysValues", "setUnion", "setInter", "setDiff", "setMember", "manifestJsonEx", "manifestJsonMinified",
	"manifestYamlDoc", "manifestTomlEx", "asciiUpper", "asciiLower", "filterMap", "flatMap", "startsWith", "endsWith",
	"parseInt", "parseOctal", "parseHex", "parseJson", "parseYaml", "base64", "base64Decode", "base64DecodeBytes",
	"min", "max", "minArray", "maxArray", "isString", "isNumber", "isObject", "isArray", "stripChars", "lstripChars",
	"rstripChars", "strReplace", "splitLimit", "splitLimitR", "mapWithIndex", "mapWithKey", "foldl", "foldr",
];

/// a misspelling of `name` (drop / double / swap / replace one character, change one case, append)
fn misspell(rng: &mut Rng, name: &str) -> String {
	let cs: Vec<char> = name.chars().collect();
	let i = rng.below(cs.len());
	let mut out: Vec<char> = cs.clone();
	match rng.below(6) {
		0 if cs.len() > 2 => {
			out.remove(i);
		}
		1 => out.insert(i, cs[i]),
		2 if cs.len() > 1 => {
			let j = i.min(cs.len() - 2);
			out.swap(j, j + 1);
		}
		3 => out[i] = if cs[i] == 'q' { 'z' } else { 'q' },
		4 => {
			out[i] = if cs[i].is_ascii_uppercase() { cs[i].to_ascii_lowercase() } else { cs[i].to_ascii_uppercase() };
		}
		_ => out.push(*rng.pick(&['s', '2', '_', 'x'])),
	}
	let m: String = out.into_iter().collect();
	if m == name {
		format!("{name}_")
	} else {
		m
	}
}

/// an undefined local below 2-4 scopes of every kind that binds names (`local`, function parameters,
/// object locals, comprehension variables), with names shadowed across the scopes
fn gen_shadow_scopes(rng: &mut Rng) -> String {
	let fam = FAMS[rng.below(FAMS.len())];
	let mut pool: Vec<&str> = fam.to_vec();
	shuffle(rng, &mut pool);
	let target = near_miss(rng, fam);
	let nshadow = 1 + rng.below(2);
	let shadowed: Vec<&str> = pool.drain(..nshadow).collect();
	let nl = 2 + rng.below(3);
	let mut text = String::new();
	let mut closers = String::new();
	let mut fresh = pool.into_iter().cycle();
	for li in 0..nl {
		let mut names: Vec<String> = Vec::new();
		for (si, sname) in shadowed.iter().enumerate() {
			if si == 0 || rng.chance(2, 3) {
				names.push((*sname).to_string());
			}
		}
		// the further names of a scope may themselves repeat names of outer scopes
		for _ in 0..rng.below(3) {
			let f = fresh.next().expect("cycle").to_string();
			if !names.contains(&f) {
				names.push(f);
			}
		}
		shuffle(rng, &mut names);
		match if li == 0 { 0 } else { rng.below(6) } {
			1 => {
				text.push_str(&format!("(function({}) ", names.join(", ")));
				closers = format!(")({}){closers}", names.iter().map(|_| "0").collect::<Vec<_>>().join(", "));
			}
			2 => {
				text.push_str(&format!(
					"{{ {}, x: ",
					names.iter().map(|n| format!("local {n} = 1")).collect::<Vec<_>>().join(", ")
				));
				closers = format!(" }}.x{closers}");
			}
			3 => {
				text.push('[');
				closers = format!("{}][0]{closers}", names.iter().map(|n| format!(" for {n} in [1]")).collect::<String>());
			}
			4 => {
				text.push_str(&format!(
					"local f({}) = ",
					names.iter().map(|n| format!("{n} = 1")).collect::<Vec<_>>().join(", ")
				));
				closers = format!("; f(){closers}");
			}
			_ => {
				text.push_str(&format!(
					"local {}; ",
					names.iter().map(|n| format!("{n} = 1")).collect::<Vec<_>>().join(", ")
				));
			}
		}
	}
	let body = match rng.below(5) {
		0 => format!("{{ x: {target} }}.x"),
		1 => format!("[{target}][0]"),
		2 => format!("std.length([{target}, 1]) + {target}"),
		_ => target,
	};
	format!("{text}{body}{closers}")
}

fn gen_hashmsg(rng: &mut Rng) -> Prog {
	match rng.below(20) {
		0..=7 => Prog { class: "msg-shadow-local", text: gen_shadow_scopes(rng) },
		8..=10 => {
			// unknown field of an object assembled from layers that repeat names
			let fam: &[&str] = if rng.chance(1, 6) { UFAMS[rng.below(UFAMS.len())] } else { FAMS[rng.below(FAMS.len())] };
			let k = near_miss(rng, fam);
			let o1 = obj_src(&gen_obj_fam(rng, fam, 2, 0, false));
			let o2 = obj_src(&Obj::Lit(gen_lit(rng, fam, 0, false)));
			let text = match rng.below(6) {
				0 => format!("({o1} + {o2})['{k}']"),
				1 => format!("({o1} + {{ r: self['{k}'] }}).r"),
				2 => format!("({o1} + {{ r: super['{k}'] }}).r"),
				3 => format!("{{ a: {o1}, r: $.a['{k}'] }}.r"),
				4 => format!("local o = {o1} + {o2}; {{ [n]: o[n] for n in std.objectFieldsAll(o) }}['{k}']"),
				_ => format!("std.get({o1}, '{k}', error 'none') + ({o2})['{k}']"),
			};
			Prog { class: "msg-field", text }
		}
		11 | 12 => {
			let name = *rng.pick(STD_NAMES);
			let m = misspell(rng, name);
			let text = if rng.chance(1, 3) { format!("std['{m}']") } else { format!("std.{m}") };
			Prog { class: "msg-std", text }
		}
		13..=15 => {
			// calls that name a parameter wrongly / twice / not at all: the message lists the signature
			let fam = FAMS[rng.below(FAMS.len())];
			let mut pool: Vec<&str> = fam.to_vec();
			shuffle(rng, &mut pool);
			let np = 2 + rng.below(3);
			let params: Vec<&str> = pool[..np.min(pool.len() - 1)].to_vec();
			let sig = params
				.iter()
				.enumerate()
				.map(|(i, p)| if i + 1 == params.len() && rng.chance(1, 2) { format!("{p} = 0") } else { (*p).to_string() })
				.collect::<Vec<_>>()
				.join(", ");
			let miss = near_miss(rng, fam);
			let call = match rng.below(6) {
				0 => format!("f({miss} = 1)"),
				1 => format!("f(1, {} = 2)", params[0]),
				2 => format!("f({} = 1)", params[params.len() - 1]),
				3 => format!("f({})", (0..params.len() + 1).map(|i| i.to_string()).collect::<Vec<_>>().join(", ")),
				4 => format!("f({}, {miss} = 0)", params.iter().rev().map(|p| format!("{p} = 1")).collect::<Vec<_>>().join(", ")),
				_ => "f()".to_string(),
			};
			let text = match rng.below(4) {
				0 => format!("local o = {{ f({sig}): 0 }}; o.{}", call),
				1 => {
					let b = *rng.pick(&[
						"std.substr(str = 'a')",
						"std.substr('abc', len = 1)",
						"std.substr('abc', 1, 2, 3)",
						"std.substr('abc', 1, form = 2)",
						"std.join(sep = ',')",
						"std.foldl(function(a, b) a, [1], ini = 0)",
						"std.objectHas({}, f = 'a', o = {})",
						"std.manifestJsonEx({}, indent = ' ', newlin = '')",
					]);
					b.to_string()
				}
				_ => format!("local f({sig}) = 0; {call}"),
			};
			Prog { class: "msg-args", text }
		}
		_ => {
			// messages that print a listing of an object's names
			let o = obj_src(&gen_obj(rng, 3, 0, false));
			let text = match rng.below(9) {
				0 => format!("error std.toString(std.objectFields({o}))"),
				1 => format!("assert false : std.toString(std.objectFieldsAll({o})); 0"),
				2 => format!("error 'fields: ' + std.join(',', std.objectFieldsAll({o}))"),
				3 => format!("error std.manifestJsonMinified({o})"),
				4 => format!("std.assertEqual({o}, {{ never: 1 }})"),
				5 => format!("std.mapWithKey(function(k, v) error k, {o})"),
				6 => format!("[error k for k in std.objectFieldsAll({o})]"),
				7 => format!("local o = {o}; {{ assert false : std.toString(o), a: 1 }}.a"),
				_ => format!("{o} + 1"),
			};
			Prog { class: "msg-listing", text }
		}
	}
}

fn gen_error(rng: &mut Rng) -> Prog {
	match rng.below(13) {
		10..=12 => gen_hashmsg(rng),
		0 | 1 => {
			// did-you-mean on fields
			let fam: &[&str] = if rng.chance(1, 5) { UFAMS[rng.below(UFAMS.len())] } else { FAMS[rng.below(FAMS.len())] };
			let o = obj_src(&gen_obj_fam(rng, fam, 2, 0, false));
			let k = near_miss(rng, fam);
			Prog { class: "suggest-field", text: format!("{o}['{k}']") }
		}
		2 | 3 => {
			let (text, _, _) = gen_locals_prog(rng);
			Prog { class: "suggest-local", text }
		}
		4 => {
			let t = *rng.pick(&[
				"std.lenght([1])",
				"std.objectField({})",
				"std.manifestJson({})",
				"std.setUnon([], [])",
				"std.filterMapp(1, 2, 3)",
				"std.asciiUper('a')",
			]);
			Prog { class: "suggest-std", text: t.to_string() }
		}
		5 => {
			let t = *rng.pick(&[
				"local f(a, b) = a; f(c=1, d=2)",
				"local f(a, b) = a; f(1, 2, 3)",
				"local f(a, b) = a; f(b=1)",
				"local f(a, b) = a; f(1, a=2)",
				"std.length()",
				"std.substr('abc', 1)",
			]);
			Prog { class: "arity", text: t.to_string() }
		}
		6 => {
			let t = *rng.pick(&[
				"{ assert self.a > 1 : 'A too small', a: 1 }.a",
				"{ assert self.a > 1 : 'first' } + { assert self.a > 2 : 'second', a: 0 }",
				"local o = { assert false : 'never' }; std.objectFields(o) + [o.x]",
				"assert 1 == 2 : 'top assert'; 1",
				"(import 'lib_assert.libsonnet').b",
			]);
			Prog { class: "assert", text: t.to_string() }
		}
		_ => {
			let a = rng.range(0, 9);
			let text = match rng.below(8) {
				0 => format!("error 'boom {a}'"),
				1 => format!("{a} / 0"),
				2 => format!("[1, 2][{}]", a + 2),
				3 => "'a' + {} - 1".to_string(),
				4 => format!("std.parseInt('x{a}')"),
				5 => format!("'%d' % 'n{a}'"),
				6 => "local a = b, b = a; a".to_string(),
				_ => "{ a: self.b, b: self.a }.a".to_string(),
			};
			Prog { class: "error", text }
		}
	}
}

fn gen_multi(rng: &mut Rng) -> Prog {
	let text = match rng.below(8) {
		0 | 1 | 2 => {
			let o = obj_src(&gen_obj(rng, 2, 5, false));
			listing_wrap(rng, &o)
		}
		3 => {
			let o = obj_src(&gen_obj(rng, 2, 6, true));
			format!("local o = {o}; std.map(function(k) o[k], std.reverse(std.objectFields(o)))")
		}
		4 => "[error 'first', error 'second', 1 / 0]".to_string(),
		5 => {
			let fam = FAMS[rng.below(FAMS.len())];
			let o1 = obj_src(&gen_obj_fam(rng, fam, 1, 0, false));
			let o2 = obj_src(&gen_obj_fam(rng, fam, 1, 0, false));
			format!("{o1}.{} + {o2}.{}", near_miss(rng, fam), near_miss(rng, fam))
		}
		6 => "{ assert false : 'A1', a: error 'Ea' } + { assert false : 'A2', b: error 'Eb' }".to_string(),
		_ => {
			let o = obj_src(&gen_obj(rng, 2, 4, true));
			format!("std.manifestJsonEx({o}, '  ') + std.manifestYamlDoc({o})")
		}
	};
	Prog { class: "multi-error", text }
}

fn gen_stack(rng: &mut Rng) -> Prog {
	let k = match rng.below(6) {
		0 => rng.range(1, 60),
		1 => rng.range(60, 110),
		2 => rng.range(180, 210),
		3 => rng.range(90, 104),
		4 => rng.range(190, 202),
		_ => rng.range(300, 900),
	};
	let text = match rng.below(4) {
		0 => format!("local f(n) = if n == 0 then 0 else 1 + f(n - 1); f({k})"),
		1 => format!("local o = {{ f(n): if n == 0 then 0 else 1 + self.f(n - 1) }}; o.f({k})"),
		2 => format!("std.foldl(function(a, i) [a], std.range(1, {k}), 0)"),
		_ => format!("local f(n) = if n == 0 then {{ abc1: 1 }}.abc else [f(n - 1)]; f({k})"),
	};
	Prog { class: "stack", text }
}

fn gen_import(rng: &mut Rng) -> Prog {
	let k = rng.range(100, 199);
	let t = match rng.below(14) {
		0 => "(import 'lib_ok.libsonnet').g".to_string(),
		1 => "import 'lib_err.libsonnet'".to_string(),
		2 => "(import 'lib_lazy.libsonnet').bad".to_string(),
		3 => "(import 'lib_lazy.libsonnet').good".to_string(),
		4 => "import 'lib_lazy.libsonnet'".to_string(),
		5 => "import 'lib_cyc_a.libsonnet'".to_string(),
		6 => "import 'lib_syntax.libsonnet'".to_string(),
		7 => "importstr 'lib_ok.libsonnet'".to_string(),
		8 => "import 'lib_self.libsonnet'".to_string(),
		9 => "import 'lib_missing.libsonnet'".to_string(),
		10 => "(import 'lib_ok.libsonnet').abc".to_string(),
		11 => "std.objectFieldsAll(import 'lib_ok.libsonnet')".to_string(),
		12 => "(import 'lib_deep.libsonnet').y".to_string(),
		_ => format!("local f(n) = if n == 0 then (import 'lib_ok.libsonnet').f else 1 + f(n - 1); f({k})"),
	};
	Prog { class: "import", text: t }
}

/// programs that force a lazily evaluated member of an imported (state-cached) value
fn gen_import_deep(rng: &mut Rng) -> Prog {
	let m = *rng.pick(&["x", "z"]);
	if rng.chance(1, 2) {
		Prog { class: "import-deep", text: format!("(import 'lib_deep.libsonnet').{m}") }
	} else {
		let k = rng.range(120, 199);
		Prog {
			class: "import-deep",
			text: format!("local f(n) = if n == 0 then (import 'lib_deep.libsonnet').{m} else 1 + f(n - 1); f({k})"),
		}
	}
}

fn gen_prog(rng: &mut Rng) -> Prog {
	match rng.below(20) {
		0..=5 => gen_value(rng),
		6..=10 => gen_error(rng),
		11..=13 => gen_multi(rng),
		14..=16 => gen_stack(rng),
		17 | 18 => gen_import(rng),
		_ => gen_import_deep(rng),
	}
}

// ---------------------------------------------------------------------------------------------
// det.hist

#[derive(Clone, Debug)]
struct Variant {
	worker: bool,
	pool: Vec<String>,
	hist: Vec<String>,
	gc: bool,
	twice: bool,
}

fn idents_of(text: &str) -> Vec<String> {
	// every identifier-like / quoted word of the program: pre-interning these (in another order)
	// changes the addresses the evaluator's hash maps are keyed by
	let mut out: Vec<String> = Vec::new();
	let mut cur = String::new();
	for c in text.chars().chain(std::iter::once(' ')) {
		if c.is_alphanumeric() || c == '_' {
			cur.push(c);
		} else {
			if !cur.is_empty() && !cur.chars().next().unwrap().is_ascii_digit() && !out.contains(&cur) {
				out.push(cur.clone());
			}
			cur.clear();
		}
	}
	out
}

fn gen_variant(rng: &mut Rng, p: &Prog, worker: bool) -> Variant {
	let mut pool = Vec::new();
	match rng.below(4) {
		0 => {}
		1 => {
			pool = idents_of(&p.text);
			shuffle(rng, &mut pool);
		}
		2 => {
			pool = idents_of(&p.text);
			pool.reverse();
			for i in 0..rng.below(40) {
				pool.insert(rng.below(pool.len() + 1), format!("filler_{i}_{}", rng.below(1000)));
			}
		}
		_ => {
			for i in 0..(1usize << rng.below(11)) {
				pool.push(format!("pad{i}"));
			}
			let mut ids = idents_of(&p.text);
			shuffle(rng, &mut ids);
			pool.extend(ids);
		}
	}
	let mut hist = Vec::new();
	for _ in 0..rng.below(5) {
		let h = match rng.below(8) {
			0 | 1 => gen_stack(rng),
			2 => gen_import(rng),
			3 => gen_import_deep(rng),
			4 => gen_multi(rng),
			5 => gen_error(rng),
			_ => gen_value(rng),
		};
		hist.push(h.text);
	}
	if rng.chance(1, 4) {
		hist.push(p.text.clone());
	}
	Variant { worker, pool, hist, gc: rng.chance(1, 3), twice: rng.chance(1, 5) }
}

fn run_variant(s: &State, v: &Variant, p: &str) -> String {
	let keep: Vec<IStr> = v.pool.iter().map(|x| IStr::from(x.as_str())).collect();
	for h in &v.hist {
		let _ = render(s, h);
	}
	if v.gc {
		jrsonnet_gcmodule::collect_thread_cycles();
	}
	let mut out = render(s, p);
	if v.twice {
		let again = render(s, p);
		if again != out {
			out = format!("{out}\n<<second evaluation in the same state differs>>\n{again}");
		}
	}
	drop(keep);
	out
}

fn variant_json(v: &Variant) -> Value {
	json!({"worker": v.worker, "pool_n": v.pool.len(), "pool_head": v.pool.iter().take(12).collect::<Vec<_>>(),
	       "hist": v.hist, "gc": v.gc, "twice": v.twice})
}

fn run_hist(opts: &Opts, w: &mut CaseWriter, lib: &Path, meta: &mut BTreeMap<String, usize>) {
	let mut rng = Rng::new(opts.seed ^ 0x1616);
	let n = if opts.thorough() { 2400 } else { 420 };
	// the long-lived worker: ONE state on ONE thread for the whole run
	let lib2 = lib.to_path_buf();
	let (tx, rx) = std::sync::mpsc::channel::<Option<(Variant, String)>>();
	let (rtx, rrx) = std::sync::mpsc::channel::<String>();
	let worker = thread::Builder::new()
		.stack_size(BIG_STACK)
		.spawn(move || {
			let s = mk_state(&lib2);
			while let Ok(Some((v, p))) = rx.recv() {
				let _ = rtx.send(run_variant(&s, &v, &p));
			}
		})
		.expect("spawn worker");
	// fixed scenarios first: (program, history that must not influence it)
	let deep = |m: &str, k: usize| format!("local f(n) = if n == 0 then (import 'lib_deep.libsonnet').{m} else 1 + f(n - 1); f({k})");
	let fixed: Vec<(Prog, Vec<String>)> = vec![
		(Prog { class: "import-deep", text: "(import 'lib_deep.libsonnet').x".into() }, vec![deep("x", 190)]),
		(Prog { class: "import-deep", text: "(import 'lib_deep.libsonnet').z".into() }, vec![deep("z", 170)]),
		(Prog { class: "import-deep", text: deep("x", 20) }, vec![deep("x", 175), deep("x", 150)]),
		(Prog { class: "stack", text: "local f(n) = if n == 0 then 0 else 1 + f(n - 1); f(120)".into() },
		 vec!["local f(n) = if n == 0 then 0 else 1 + f(n - 1); f(5000)".into(), "error 'x'".into()]),
		(Prog { class: "import", text: "import 'lib_err.libsonnet'".into() }, vec!["import 'lib_err.libsonnet'".into()]),
		(Prog { class: "import", text: "import 'lib_cyc_a.libsonnet'".into() }, vec!["import 'lib_cyc_b.libsonnet'".into()]),
		(Prog { class: "assert", text: "(import 'lib_assert.libsonnet').b".into() }, vec!["(import 'lib_assert.libsonnet').a".into()]),
	];
	let nfixed = fixed.len();
	// error texts assembled from hash-map iteration: more interning histories per program
	let nmsg = if opts.thorough() { 600 } else { 120 };
	for ci in 0..n + nfixed + nmsg {
		let msg = ci >= n + nfixed;
		let (p, forced_hist) = if ci < nfixed {
			(fixed[ci].0.clone(), Some(fixed[ci].1.clone()))
		} else if msg {
			(gen_hashmsg(&mut rng), None)
		} else {
			(gen_prog(&mut rng), None)
		};
		*meta.entry(format!("hist:{}", p.class)).or_default() += 1;
		let mut variants = vec![Variant { worker: false, pool: vec![], hist: vec![], gc: false, twice: false }];
		for _ in 0..if msg { 8 } else { 3 } {
			variants.push(gen_variant(&mut rng, &p, false));
		}
		for _ in 0..if msg { 4 } else { 2 } {
			variants.push(gen_variant(&mut rng, &p, true));
		}
		if msg {
			// the names of the program interned in every rotation / reversed before it runs, and
			// programs binding the same names in another order evaluated before it
			let ids = idents_of(&p.text);
			for (vi, v) in variants.iter_mut().enumerate().skip(1) {
				let mut pool = ids.clone();
				if vi % 2 == 0 {
					pool.reverse();
				}
				let k = vi % pool.len().max(1);
				pool.rotate_left(k);
				if vi % 3 == 0 {
					// holes between the names
					pool = pool.into_iter().flat_map(|x| [format!("gap_{x}_{vi}"), x]).collect();
				}
				if vi >= 5 {
					v.pool = pool.clone();
				}
				if vi % 4 == 1 {
					let binds: Vec<String> = pool.iter().filter(|x| x.is_ascii() && !matches!(x.as_str(), "local" | "function" | "for" | "in" | "if" | "then" | "else" | "error" | "assert" | "self" | "super" | "std" | "true" | "false" | "null")).map(|x| format!("{x} = '{x}'")).collect();
					if !binds.is_empty() {
						v.hist.insert(0, format!("local {}; 0", binds.join(", ")));
					}
				}
			}
		}
		if let Some(h) = forced_hist {
			variants[1].hist = h.clone();
			variants[4].hist = h;
		}
		let mut outs = Vec::new();
		for v in &variants {
			let out = if v.worker {
				tx.send(Some((v.clone(), p.text.clone()))).expect("send");
				rrx.recv().unwrap_or_else(|_| "WORKER-DIED".into())
			} else {
				let (v2, p2, l2) = (v.clone(), p.text.clone(), lib.to_path_buf());
				big(move || {
					let s = mk_state(&l2);
					run_variant(&s, &v2, &p2)
				})
			};
			outs.push(out);
		}
		for v in &variants {
			*meta.entry(format!("hist-len:{}", v.hist.len())).or_default() += 1;
		}
		let outcome = if outs[0].starts_with("OK") { "ok" } else if outs[0].starts_with("ERR") { "err" } else { "panic" };
		*meta.entry(format!("hist-outcome:{outcome}")).or_default() += 1;
		let size = p.text.len() + variants.iter().map(|v| v.hist.iter().map(String::len).sum::<usize>() + v.pool.len()).sum::<usize>();
		let deep_forced_under_limit = variants
			.iter()
			.zip(&outs)
			.map(|(v, _)| v.hist.iter().any(|h| h.contains("lib_deep.libsonnet")))
			.collect::<Vec<_>>();
		w.case(
			json!({"op":"det.hist","class":p.class,"prog":p.text,"variants":variants.iter().map(variant_json).collect::<Vec<_>>(),
			       "outs":outs,"hist_touches_lib_deep":deep_forced_under_limit,"size":size}),
			json!({"_n": outs.len()}),
		);
	}
	let _ = tx.send(None);
	let _ = worker.join();
}

// ---------------------------------------------------------------------------------------------
// det.fields

#[cfg(jrsonnet_verif)]
fn shape_json(v: &Val) -> Option<Value> {
	use jrsonnet_evaluator::{VerifCoreShape, Visibility};
	let Val::Obj(o) = v else { return None };
	let mut cores = Vec::new();
	for c in o.verif_core_shape() {
		cores.push(match c {
			VerifCoreShape::Oop(fs) => json!({"k":"oop","fs":fs.iter().map(|(n, _add, vis)| json!([n.as_str(), match vis {
				Visibility::Normal => "n", Visibility::Hidden => "h", Visibility::Unhide => "u" }])).collect::<Vec<_>>()}),
			VerifCoreShape::Omit(ns, prev) => json!({"k":"omit","ns":ns.iter().map(|n| n.as_str().to_string()).collect::<Vec<_>>(),"prev":prev}),
			_ => return None,
		});
	}
	Some(Value::Array(cores))
}
#[cfg(not(jrsonnet_verif))]
fn shape_json(_v: &Val) -> Option<Value> {
	None
}

fn run_fields(opts: &Opts, w: &mut CaseWriter, lib: &Path, meta: &mut BTreeMap<String, usize>) {
	let mut rng = Rng::new(opts.seed ^ 0xF1E1D5);
	let n = if opts.thorough() { 3000 } else { 500 };
	let lib = lib.to_path_buf();
	let cases: Vec<(Value, Value, usize)> = big(move || {
		let s = mk_state(&lib);
		let mut out = Vec::new();
		for _ in 0..n {
			let o = gen_obj(&mut rng, 3, 0, false);
			let src = obj_src(&o);
			let mut names = Vec::new();
			obj_names(&o, &mut names);
			shuffle(&mut rng, &mut names);
			let keep: Vec<IStr> = names.iter().map(|x| IStr::from(x.as_str())).collect();
			let seed = rng.below(1 << 20);
			let r = guarded(|| s.evaluate_snippet("<o>".to_owned(), src.clone()));
			let (shape, ans) = match r {
				Ok(Ok(v)) => {
					let sh = shape_json(&v);
					let Val::Obj(ov) = &v else { unreachable!() };
					let f = |h: bool| -> Vec<String> {
						ov.fields_ex(
							h,
							#[cfg(feature = "exp-preserve-order")]
							false,
						)
						.iter()
						.map(|x| x.as_str().to_string())
						.collect()
					};
					(sh, json!({"fields": f(false), "fieldsAll": f(true), "len": ov.len()}))
				}
				Ok(Err(e)) => (None, json!({"err": e.error().to_string()})),
				Err(p) => (None, json!({"panic": p})),
			};
			drop(keep);
			let Some(shape) = shape else {
				out.push((json!({"op":"det.fields","src":src,"cores":null,"seed":seed,"size":src.len()}), ans, 0));
				continue;
			};
			let nc = shape.as_array().map_or(0, Vec::len);
			out.push((json!({"op":"det.fields","src":src,"cores":shape,"seed":seed,"size":src.len()}), ans, nc));
		}
		out
	});
	for (op, ans, nc) in cases {
		*meta.entry(format!("fields-cores:{nc}")).or_default() += 1;
		w.case(op, ans);
	}
}

// ---------------------------------------------------------------------------------------------
// det.suggest

fn score_bits(a: &str, b: &str) -> u64 {
	strsim::jaro_winkler(a, b).to_bits()
}

fn run_suggest(opts: &Opts, w: &mut CaseWriter, lib: &Path, meta: &mut BTreeMap<String, usize>) {
	let mut rng = Rng::new(opts.seed ^ 0x5A66);
	let n = if opts.thorough() { 3000 } else { 500 };
	let lib = lib.to_path_buf();
	let cases: Vec<(Value, Value, String)> = big(move || {
		let s = mk_state(&lib);
		let mut out = Vec::new();
		for i in 0..n {
			if i % 2 == 0 {
				// locals
				let (text, layers, target) = gen_locals_prog(&mut rng);
				let mut pre: Vec<String> = layers.iter().flatten().cloned().collect();
				shuffle(&mut rng, &mut pre);
				let keep: Vec<IStr> = if rng.chance(2, 3) { pre.iter().map(|x| IStr::from(x.as_str())).collect() } else { vec![] };
				let r = guarded(|| s.evaluate_snippet("<s>".to_owned(), text.clone()));
				drop(keep);
				let ans = match r {
					Ok(Err(e)) => match e.error() {
						ErrorKind::VariableIsNotDefined(n, sugg) => {
							json!({"key": n.as_str(), "suggest": sugg.iter().map(|x| x.as_str().to_string()).collect::<Vec<_>>()})
						}
						other => json!({"err": other.to_string()}),
					},
					Ok(Ok(_)) => json!({"ok": true}),
					Err(p) => json!({"panic": p}),
				};
				// scopes innermost first; the outermost scope binds `std`
				let mut ls: Vec<Vec<Value>> = layers
					.iter()
					.map(|l| {
						let mut l = l.clone();
						shuffle(&mut rng, &mut l);
						l.iter().map(|x| json!([x, score_bits(x, &target)])).collect()
					})
					.collect();
				ls.push(vec![json!(["std", score_bits("std", &target)])]);
				let sz = text.len();
				out.push((json!({"op":"det.suggest","kind":"local","key":target,"layers":ls,"prog":text,"size":sz}), ans, "local".to_string()));
			} else {
				let fam: &[&str] = if rng.chance(1, 4) { UFAMS[rng.below(UFAMS.len())] } else { FAMS[rng.below(FAMS.len())] };
				let o = gen_obj_fam(&mut rng, fam, 2, 0, false);
				let key = near_miss(&mut rng, fam);
				let src = obj_src(&o);
				let text = format!("{src}['{key}']");
				let mut names = Vec::new();
				obj_names(&o, &mut names);
				shuffle(&mut rng, &mut names);
				let keep: Vec<IStr> = if rng.chance(2, 3) { names.iter().map(|x| IStr::from(x.as_str())).collect() } else { vec![] };
				let r = guarded(|| s.evaluate_snippet("<s>".to_owned(), text.clone()));
				let ov = guarded(|| s.evaluate_snippet("<o>".to_owned(), src.clone()));
				drop(keep);
				let shape = match &ov {
					Ok(Ok(v)) => shape_json(v),
					_ => None,
				};
				let ans = match r {
					Ok(Err(e)) => match e.error() {
						ErrorKind::NoSuchField(n, sugg) => {
							json!({"key": n.as_str(), "suggest": sugg.iter().map(|x| x.as_str().to_string()).collect::<Vec<_>>()})
						}
						other => json!({"err": other.to_string()}),
					},
					Ok(Ok(_)) => json!({"ok": true}),
					Err(p) => json!({"panic": p}),
				};
				let mut all: Vec<String> = Vec::new();
				obj_names(&o, &mut all);
				let scores: Vec<Value> = all.iter().map(|x| json!([x, score_bits(x, &key)])).collect();
				let sz = text.len();
				out.push((json!({"op":"det.suggest","kind":"field","key":key,"cores":shape,"scores":scores,"prog":text,"size":sz}), ans, "field".to_string()));
			}
		}
		out
	});
	for (op, ans, kind) in cases {
		let ns = ans.get("suggest").and_then(Value::as_array).map_or(0, Vec::len);
		*meta.entry(format!("suggest-{kind}:{}", ns.min(5))).or_default() += 1;
		w.case(op, ans);
	}
}

// ---------------------------------------------------------------------------------------------
// det.tla

fn run_tla(opts: &Opts, w: &mut CaseWriter, lib: &Path, meta: &mut BTreeMap<String, usize>) {
	let mut rng = Rng::new(opts.seed ^ 0x71A);
	let n = if opts.thorough() { 2000 } else { 400 };
	let lib = lib.to_path_buf();
	let cases: Vec<(Value, Value)> = big(move || {
		let s = mk_state(&lib);
		let mut out = Vec::new();
		const PN: &[&str] = &["a", "b", "c", "d", "e", "f"];
		for _ in 0..n {
			let np = 1 + rng.below(5);
			let mut params: Vec<(String, bool)> = Vec::new(); // name, has default
			let mut pool: Vec<&str> = PN.to_vec();
			shuffle(&mut rng, &mut pool);
			for p in pool.iter().take(np) {
				params.push(((*p).to_string(), rng.chance(1, 3)));
			}
			let src = format!(
				"function({}) [{}]",
				params.iter().map(|(p, d)| if *d { format!("{p} = 'd_{p}'") } else { p.clone() }).collect::<Vec<_>>().join(", "),
				params.iter().map(|(p, _)| p.clone()).collect::<Vec<_>>().join(", ")
			);
			// arguments: never more than parameters (the over-full case is a separate arithmetic defect)
			let na = rng.below(np + 1);
			let mut anames: Vec<String> = Vec::new();
			let mut cands: Vec<String> = PN.iter().map(|x| (*x).to_string()).chain(["zz".to_string(), "q1".to_string(), "q2".to_string()]).collect();
			shuffle(&mut rng, &mut cands);
			for c in cands.into_iter().take(na) {
				anames.push(c);
			}
			let mut args: Vec<(String, &'static str)> = Vec::new();
			for a in &anames {
				let kind = match rng.below(6) {
					0 => "missing-import",
					1 => "missing-importstr",
					2 => "code",
					_ => "str",
				};
				args.push((a.clone(), kind));
			}
			let mut ins = args.clone();
			shuffle(&mut rng, &mut ins);
			// pre-intern in a shuffled order, then build the map in another order
			let mut pre = anames.clone();
			shuffle(&mut rng, &mut pre);
			let keep: Vec<IStr> = pre.iter().map(|x| IStr::from(x.as_str())).collect();
			let mut map: FxHashMap<IStr, TlaArg> = FxHashMap::default();
			for (a, k) in &ins {
				let v = match *k {
					"missing-import" => TlaArg::Import(format!("no_such_{a}.jsonnet")),
					"missing-importstr" => TlaArg::ImportStr(format!("no_such_{a}.txt")),
					"code" => TlaArg::InlineCode(format!("'c_{a}'")),
					_ => TlaArg::String(format!("s_{a}").into()),
				};
				map.insert(a.as_str().into(), v);
			}
			let r = guarded(|| -> Result<String, jrsonnet_evaluator::Error> {
				let _g = s.enter();
				let f = s.evaluate_snippet("<f>".to_owned(), src.clone())?;
				let v = apply_tla(&map, f)?;
				v.manifest(JsonFormat::minify(
					#[cfg(feature = "exp-preserve-order")]
					false,
				))
			});
			drop(keep);
			let ans = match r {
				Ok(Ok(_)) => json!({"ok": true}),
				Ok(Err(e)) => match e.error() {
					ErrorKind::ImportFileNotFound(_, p) => {
						let ps = p.to_string();
						let arg = ps.trim_start_matches("no_such_").split('.').next().unwrap_or("").to_string();
						json!({"err":"import","name":arg})
					}
					ErrorKind::UnknownFunctionParameter(n) => json!({"err":"unknown","name":n.as_str()}),
					ErrorKind::FunctionParameterNotBoundInCall(n, _) => json!({"err":"unbound","name":n.to_string()}),
					other => json!({"err":"other","_msg":other.to_string()}),
				},
				Err(p) => json!({"panic": p}),
			};
			let sz = src.len() + args.len() * 8;
			out.push((
				json!({"op":"det.tla","params":params.iter().map(|(p, d)| json!([p, d])).collect::<Vec<_>>(),
				       "args":ins.iter().map(|(a, k)| json!([a, k])).collect::<Vec<_>>(),"size":sz}),
				ans,
			));
		}
		out
	});
	for (op, ans) in cases {
		let k = ans.get("err").and_then(Value::as_str).unwrap_or(if ans.get("ok").is_some() { "ok" } else { "panic" }).to_string();
		*meta.entry(format!("tla:{k}")).or_default() += 1;
		w.case(op, ans);
	}
}

// ---------------------------------------------------------------------------------------------
// det.repeat (fresh processes)

fn cli_once(bin: &Path, lib: &Path, args: &[String]) -> String {
	match Command::new(bin).arg("-J").arg(lib).args(args).env_remove("JSONNET_PATH").output() {
		Ok(o) => format!(
			"exit={:?}\n--stdout--\n{}\n--stderr--\n{}",
			o.status.code(),
			String::from_utf8_lossy(&o.stdout),
			String::from_utf8_lossy(&o.stderr)
		),
		Err(e) => format!("SPAWN-FAILED {e}"),
	}
}

fn run_cli(opts: &Opts) {
	let mut w = CaseWriter::new(&opts.out);
	let lib = opts.out.join("lib");
	write_libs(&lib);
	let bin = PathBuf::from(std::env::var("VERIF_BIN_DIR").unwrap_or_default()).join("jrsonnet");
	let mut rng = Rng::new(opts.seed ^ 0xC11);
	let n = if opts.thorough() { 480 } else { 72 };
	const RUNS: usize = 8;
	let mut meta: BTreeMap<String, usize> = BTreeMap::new();
	let mut jobs: Vec<(Prog, Vec<String>)> = Vec::new();
	// fixed witnesses of the repaired defects come first
	jobs.push((Prog { class: "suggest-local", text: "local abc1=1,abc2=2,abc3=3,abc4=4; abc".into() }, vec![]));
	jobs.push((
		Prog { class: "tla", text: "function(x, y) x".into() },
		vec!["--tla-str".into(), "a=1".into(), "--tla-str".into(), "b=2".into()],
	));
	jobs.push((
		Prog { class: "tla", text: "function(a, b) a".into() },
		vec!["--tla-code-file".into(), "a=/nonexistent/1".into(), "--tla-code-file".into(), "b=/nonexistent/2".into()],
	));
	while jobs.len() < n {
		if rng.chance(1, 8) {
			// top-level arguments: unknown names / unresolvable files
			let mut names = vec!["a", "b", "c", "d", "zz", "q"];
			shuffle(&mut rng, &mut names);
			let k = 1 + rng.below(3);
			let mut args = Vec::new();
			for a in &names[..k] {
				match rng.below(3) {
					0 => {
						args.push("--tla-code-file".to_string());
						args.push(format!("{a}=/nonexistent/{a}.jsonnet"));
					}
					1 => {
						args.push("--tla-code".to_string());
						args.push(format!("{a}=1+1"));
					}
					_ => {
						args.push("--tla-str".to_string());
						args.push(format!("{a}=s"));
					}
				}
			}
			let text = *rng.pick(&["function(a, b, c) [a, b, c]", "function(a, b=2, c=3) [a, b, c]", "function(x, y, z) x"]);
			jobs.push((Prog { class: "tla", text: text.to_string() }, args));
		} else {
			jobs.push((gen_prog(&mut rng), vec![]));
		}
	}
	// error texts assembled from hash-map iteration: RUNS_MSG fresh processes each, so that a text
	// that differs in 30% of the address-space layouts shows with probability 1 - 0.7^14 - 0.3^14 > 0.99
	// per affected program
	const RUNS_MSG: usize = 14;
	let nmsg = if opts.thorough() { 320 } else { 56 };
	let nplain = jobs.len();
	jobs.push((Prog { class: "msg-shadow-local", text: "local abc1 = 1, abc3 = 3; local abc1 = 2, abc4 = 4; { x: abc2 }.x".into() }, vec![]));
	while jobs.len() < nplain + nmsg {
		jobs.push((gen_hashmsg(&mut rng), vec![]));
	}
	let runs_of = |i: usize| if i < nplain { RUNS } else { RUNS_MSG };
	let results: Vec<Vec<String>> = thread::scope(|sc| {
		let nthreads = 6;
		let chunks: Vec<Vec<usize>> = (0..nthreads).map(|t| (0..jobs.len()).filter(|i| i % nthreads == t).collect()).collect();
		let handles: Vec<_> = chunks
			.into_iter()
			.map(|idxs| {
				let (jobs, bin, lib) = (&jobs, &bin, &lib);
				sc.spawn(move || {
					idxs.into_iter()
						.map(|i| {
							let mut args = jobs[i].1.clone();
							args.push("-e".into());
							args.push(jobs[i].0.text.clone());
							(i, (0..runs_of(i)).map(|_| cli_once(bin, lib, &args)).collect::<Vec<_>>())
						})
						.collect::<Vec<_>>()
				})
			})
			.collect();
		let mut all: Vec<(usize, Vec<String>)> = handles.into_iter().flat_map(|h| h.join().expect("join")).collect();
		all.sort_by_key(|x| x.0);
		all.into_iter().map(|x| x.1).collect()
	});
	for ((p, args), outs) in jobs.iter().zip(results) {
		*meta.entry(format!("cli:{}", p.class)).or_default() += 1;
		let oc = if outs[0].starts_with("exit=Some(0)") { "ok" } else { "fail" };
		*meta.entry(format!("cli-outcome:{oc}")).or_default() += 1;
		w.case(
			json!({"op":"det.repeat","class":p.class,"prog":p.text,"args":args,"outs":outs,"size":p.text.len()}),
			json!({"_n": outs.len()}),
		);
	}
	let n = w.n;
	w.finish(
		json!({"engine":"c16cli","cases":n,"runs_per_program":RUNS,"runs_per_message_program":RUNS_MSG,"message_programs":nmsg,"hist":meta,
		       "rule":"generated programs (field listings, values, errors, did-you-mean, multi-error, stack-limited, imports, top-level-argument errors) + the witnesses of the repaired defects, each run 8x as a fresh jrsonnet process (ASLR on): exit status, stdout and stderr byte-identical; error texts assembled from hash-map iteration (undefined local below 2-4 local/function/object-local/comprehension scopes with shadowed names, unknown field of layered objects through ./self/super/$, misspelt std functions, unknown/duplicate/missing/surplus arguments of user functions, methods and builtins, field listings inside error/assert messages) 14x each"}),
		&opts.out,
	);
}

pub fn run(opts: &Opts) {
	if opts.engine == "c16cli" {
		return run_cli(opts);
	}
	let mut w = CaseWriter::new(&opts.out);
	let lib = opts.out.join("lib");
	write_libs(&lib);
	let mut meta: BTreeMap<String, usize> = BTreeMap::new();
	run_fields(opts, &mut w, &lib, &mut meta);
	run_suggest(opts, &mut w, &lib, &mut meta);
	run_tla(opts, &mut w, &lib, &mut meta);
	run_hist(opts, &mut w, &lib, &mut meta);
	let n = w.n;
	w.finish(
		json!({"engine":"c16","cases":n,"hist":meta,
		       "rule":"det.fields: random object terms (depth<=3, 8 name families incl. non-ASCII, :/::/::: members, +, objectRemoveKey) with names pre-interned in shuffled order, layer vector via verif_core_shape, fields_ex(false/true)/len vs model under iteration permutations; det.suggest: undefined locals in 1-3 nested local/function scopes and missing fields of 1-4 layer objects, suggestion list of the real ErrorKind vs ranking model (real jaro_winkler scores); det.tla: apply_tla over FxHashMap with unknown names / unresolvable imports / unbound parameters; det.hist: every program in a fresh thread+state and after randomised histories (0-5 successful/failing/stack-limited/import programs, gc) with pre-interned pools of 0-1024 strings, on fresh threads and on one long-lived worker state"}),
		&opts.out,
	);
}
