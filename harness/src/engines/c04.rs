//! C04 — evaluation is total: a value or a Jsonnet error, never a crash.
//!
//! Three modes, selected by `opts.engine`:
//!  * `c04`  — kernel correspondence, in-process: the frame counter (`stack.run`: random programs of
//!    frames / limit overrides / failing leaves executed with the REAL `in_frame`,
//!    `in_description_frame`, `limit_stack_depth`, `set_stack_depth_limit`, probing the
//!    `verif_current_depth()`/`verif_stack_limit()` hooks at every leaf), `prepare_call`
//!    (`bind.prepare`), `std.clamp` (`num.clamp`) and the debug manifest truncation (`str.truncate`).
//!  * `c04w` — whole-program crash search: worker subprocesses (this same binary, engine name
//!    `c04worker`) evaluate arbitrary sources, std calls on boundary-heavy arguments, recursion
//!    sweeps around the frame limit, self-dependent values, top-level-argument calls, deeply nested
//!    sources; a panic is caught and reported, a signal/abort kills the worker and is recorded
//!    with the input by the parent.  After every case the worker reports the frame counter and
//!    evaluates a canary program on the same thread.
//!  * `c04worker` — the worker loop (stdin: one JSON case per line, stdout: one JSON answer).
use std::{
	collections::HashMap,
	io::{BufRead, BufReader, Write},
	process::{Child, ChildStdin, Command, Stdio},
	sync::mpsc::{channel, Receiver},
	time::Duration,
};

use jrsonnet_evaluator::{
	error::ErrorKind,
	function::{CallLocation, NativeFn, PreparedFuncVal},
	in_description_frame, in_frame,
	manifest::JsonFormat,
	stack::{limit_stack_depth, set_stack_depth_limit, verif_current_depth, verif_stack_limit},
	tla::TlaArg,
	typed::FromUntyped,
	IStr, State, Thunk, Val,
};
use serde_json::{json, Value};

use crate::common::{err_class, guarded, new_state, CaseWriter, Opts, Rng};

pub fn run(opts: &Opts) {
	match opts.engine.as_str() {
		"c04worker" => worker_main(),
		"c04w" => run_workers(opts),
		_ => run_kernels(opts),
	}
}

// ---------------------------------------------------------------------------------------------
// stack.run
// ---------------------------------------------------------------------------------------------

#[derive(Clone, Debug)]
enum P {
	Skip,
	Fail,
	Seq(Box<P>, Box<P>),
	Frame(u8, Box<P>),
	Limit(usize, Box<P>),
	Catch(Box<P>),
	Set(usize),
}
impl P {
	fn json(&self) -> Value {
		match self {
			P::Skip => json!({"k":"skip"}),
			P::Fail => json!({"k":"fail"}),
			P::Seq(a, b) => json!({"k":"seq","a":a.json(),"b":b.json()}),
			P::Frame(_, b) => json!({"k":"frame","b":b.json()}),
			P::Limit(d, b) => json!({"k":"limit","d":d,"b":b.json()}),
			P::Catch(b) => json!({"k":"catch","b":b.json()}),
			P::Set(d) => json!({"k":"set","d":d}),
		}
	}
	fn size(&self) -> usize {
		match self {
			P::Skip | P::Fail | P::Set(_) => 1,
			P::Seq(a, b) => 1 + a.size() + b.size(),
			P::Frame(_, b) | P::Limit(_, b) | P::Catch(b) => 1 + b.size(),
		}
	}
}

fn probe() -> (usize, usize) {
	(verif_current_depth(), verif_stack_limit())
}

fn exec(p: &P, log: &mut Vec<(usize, usize)>) -> jrsonnet_evaluator::Result<()> {
	match p {
		P::Skip => {
			log.push(probe());
			Ok(())
		}
		P::Fail => {
			log.push(probe());
			Err(ErrorKind::RuntimeError("leaf".into()).into())
		}
		P::Seq(a, b) => {
			exec(a, log)?;
			exec(b, log)
		}
		P::Frame(0, b) => in_frame(CallLocation::native(), || "frame".to_owned(), || exec(b, log)),
		P::Frame(_, b) => in_description_frame(|| "frame".to_owned(), || exec(b, log)),
		P::Limit(d, b) => {
			let _g = limit_stack_depth(*d);
			exec(b, log)
		}
		P::Catch(b) => {
			let _ = exec(b, log);
			Ok(())
		}
		P::Set(d) => {
			set_stack_depth_limit(*d);
			Ok(())
		}
	}
}

fn pair(p: (usize, usize)) -> Value {
	json!([p.0, p.1])
}

fn stack_case(w: &mut CaseWriter, p: &P, max: usize, hist: &mut HashMap<&'static str, usize>) {
	// every case starts from depth 0 with the limit `max` (set through the real setter)
	let before = verif_current_depth();
	set_stack_depth_limit(max);
	let start = probe();
	let mut log = Vec::new();
	let r = guarded(|| exec(p, &mut log));
	let end = probe();
	let ans = match r {
		Err(_) => {
			*hist.entry("panic").or_default() += 1;
			json!({"r":"panic"})
		}
		Ok(res) => {
			let cls = match &res {
				Ok(()) => "ok",
				Err(e) if matches!(e.error(), ErrorKind::StackOverflow) => "stack",
				Err(_) => "other",
			};
			*hist.entry(cls).or_default() += 1;
			json!({"r":cls,"start":pair(start),"end":pair(end),
				"log":log.iter().map(|p| pair(*p)).collect::<Vec<_>>(), "_before": before})
		}
	};
	// a limit override that panicked half-way leaves the override guard dropped by unwinding;
	// make sure the next case starts clean whatever happened
	if verif_current_depth() != 0 {
		// cannot be repaired from outside: report through the next case's `start`
	}
	w.case(json!({"op":"stack.run","prog":p.json(),"max":max,"size":p.size()}), ans);
}

fn gen_prog(rng: &mut Rng, fuel: usize) -> P {
	if fuel == 0 {
		return if rng.chance(1, 5) { P::Fail } else { P::Skip };
	}
	match rng.below(16) {
		0 => P::Skip,
		1 => P::Fail,
		2..=5 => P::Seq(Box::new(gen_prog(rng, fuel / 2)), Box::new(gen_prog(rng, fuel / 2))),
		6..=10 => P::Frame(rng.below(2) as u8, Box::new(gen_prog(rng, fuel - 1))),
		11 | 12 => P::Limit(gen_limit(rng), Box::new(gen_prog(rng, fuel - 1))),
		13 | 14 => P::Catch(Box::new(gen_prog(rng, fuel - 1))),
		_ => {
			if rng.chance(1, 3) {
				P::Set(gen_limit(rng))
			} else {
				P::Frame(0, Box::new(gen_prog(rng, fuel - 1)))
			}
		}
	}
}
fn gen_limit(rng: &mut Rng) -> usize {
	match rng.below(12) {
		0 => usize::MAX,
		1 => usize::MAX - 1,
		2 => 1usize << 63,
		_ => rng.below(6),
	}
}

fn small_progs(depth: usize) -> Vec<P> {
	let mut v = vec![P::Skip, P::Fail, P::Set(0), P::Set(2)];
	if depth == 0 {
		return v;
	}
	let sub = small_progs(depth - 1);
	for a in &sub {
		v.push(P::Frame(0, Box::new(a.clone())));
		v.push(P::Frame(1, Box::new(a.clone())));
		v.push(P::Catch(Box::new(a.clone())));
		for d in [0usize, 1, 2] {
			v.push(P::Limit(d, Box::new(a.clone())));
		}
	}
	if depth <= 2 {
		for a in &sub {
			for b in &sub {
				v.push(P::Seq(Box::new(a.clone()), Box::new(b.clone())));
			}
		}
	}
	v
}

// ---------------------------------------------------------------------------------------------
// bind.prepare
// ---------------------------------------------------------------------------------------------

#[derive(Clone, Debug)]
struct Par {
	name: &'static str,
	dflt: bool,
}

fn fn_source(ps: &[Par]) -> String {
	let params: Vec<String> = ps
		.iter()
		.enumerate()
		.map(|(i, p)| {
			if p.dflt {
				format!("{}=-{}", p.name, i + 1)
			} else {
				p.name.to_owned()
			}
		})
		.collect();
	let body: Vec<&str> = ps.iter().map(|p| p.name).collect();
	format!("function({}) [{}]", params.join(", "), body.join(", "))
}

fn bind_case(w: &mut CaseWriter, s: &State, ps: &[Par], unnamed: usize, named: &[&'static str], hist: &mut HashMap<String, usize>) {
	let src = fn_source(ps);
	let parsed = s.evaluate_snippet("<c04bind>".to_owned(), src.clone());
	// the parameter list goes through the parser first: accepted iff no name is declared twice
	// (asked once per parameter list, not once per call shape)
	if unnamed == 0 && named.is_empty() {
		let accepted = match &parsed {
			Ok(Val::Func(_)) => json!({"accepted": true}),
			Err(e) if err_class(e) == "syntax" => json!({"accepted": false}),
			Err(e) => json!({"accepted": "error", "_class": err_class(e)}),
			Ok(_) => json!({"accepted": "not a function"}),
		};
		*hist.entry(format!("accept:{}", accepted["accepted"])).or_default() += 1;
		w.case(
			json!({"op":"bind.accept", "params": ps.iter().map(|p| json!({"n":p.name,"d":p.dflt})).collect::<Vec<_>>(), "_src": src, "size": ps.len()}),
			accepted,
		);
	}
	let f = match parsed {
		Ok(Val::Func(f)) => f,
		_ => return,
	};
	let names: Vec<IStr> = named.iter().map(|n| IStr::from(*n)).collect();
	let uvals: Vec<Thunk<Val>> = (0..unnamed).map(|i| Thunk::evaluated(Val::Num((100 + i as i32).into()))).collect();
	let nvals: Vec<Thunk<Val>> = (0..named.len()).map(|j| Thunk::evaluated(Val::Num((200 + j as i32).into()))).collect();
	let r = guarded(|| -> Result<jrsonnet_evaluator::Result<Val>, jrsonnet_evaluator::Error> {
		let prepared = PreparedFuncVal::new(f.clone(), unnamed, &names)?;
		Ok(prepared.call(CallLocation::native(), &uvals, &nvals))
	});
	let (ans, impl_r, msg) = match r {
		Err(p) => (json!({"r":"panic","_msg":p}), "panic", p.clone()),
		Ok(Err(e)) => {
			let c = err_class(&e);
			(json!({"r": c, "_msg": format!("{}", e.error())}), "err", String::new())
		}
		Ok(Ok(Err(e))) => (json!({"r": format!("call:{}", err_class(&e))}), "callerr", String::new()),
		Ok(Ok(Ok(v))) => {
			let mut srcs = Vec::new();
			if let Val::Arr(a) = v {
				for i in 0..a.len() {
					let x = match a.get(i) {
						Ok(Some(Val::Num(n))) => n.get(),
						_ => f64::NAN,
					};
					srcs.push(if x < 0.0 {
						"d".to_owned()
					} else if x >= 200.0 {
						format!("n{}", x as i64 - 200)
					} else if x >= 100.0 {
						format!("p{}", x as i64 - 100)
					} else {
						"?".to_owned()
					});
				}
			}
			(json!({"r":"ok","src":srcs}), "ok", String::new())
		}
	};
	let mut seen = std::collections::HashSet::new();
	let dup = ps.iter().any(|p| !seen.insert(p.name));
	*hist.entry(format!("{}{}", if dup { "dup-" } else { "" }, impl_r)).or_default() += 1;
	let mut op = json!({"op":"bind.prepare",
		"params": ps.iter().map(|p| json!({"n":p.name,"d":p.dflt})).collect::<Vec<_>>(),
		"unnamed": unnamed, "named": named, "_src": src,
		"size": ps.len() + unnamed + named.len()});
	if dup {
		op["impl_r"] = json!(impl_r);
		op["impl_msg"] = json!(msg);
		op["dup"] = json!(true);
	}
	w.case(op, ans);
}

// ---------------------------------------------------------------------------------------------
// num.clamp / str.truncate
// ---------------------------------------------------------------------------------------------

fn key(x: f64) -> i64 {
	if x == 0.0 {
		0
	} else {
		let b = x.to_bits() as i64;
		if b < 0 {
			-(b & i64::MAX)
		} else {
			b
		}
	}
}

fn cps(s: &str) -> Vec<u32> {
	s.chars().map(|c| c as u32).collect()
}

fn truncate_case(w: &mut CaseWriter, s: &str, wrap: u8, hist: &mut HashMap<&'static str, usize>) {
	let v = match wrap {
		0 => Val::string(s.to_owned()),
		1 => Val::Arr(jrsonnet_evaluator::val::ArrValue::eager(vec![Val::string(s.to_owned())])),
		_ => {
			let mut b = jrsonnet_evaluator::ObjValueBuilder::new();
			b.field("k").value(Val::string(s.to_owned()));
			Val::Obj(b.build())
		}
	};
	let r = guarded(|| v.manifest(JsonFormat::debug()));
	let ans = match r {
		Err(p) => {
			*hist.entry("panic").or_default() += 1;
			json!({"panic": true, "_msg": p})
		}
		Ok(Err(e)) => json!({"err": format!("{}", e.error())}),
		Ok(Ok(text)) => match serde_json::from_str::<Value>(&text) {
			Ok(j) => {
				let got = match wrap {
					0 => j.as_str().map(str::to_owned),
					1 => j.get(0).and_then(|x| x.as_str()).map(str::to_owned),
					_ => j.get("k").and_then(|x| x.as_str()).map(str::to_owned),
				};
				match got {
					Some(t) => {
						*hist.entry(if t == s { "kept" } else { "cut" }).or_default() += 1;
						json!({"cs": cps(&t)})
					}
					None => json!({"badshape": text}),
				}
			}
			Err(_) => json!({"badjson": text}),
		},
	};
	w.case(json!({"op":"str.truncate","cs":cps(s),"t":256,"wrap":wrap,"size":s.len()}), ans);
}

fn run_kernels(opts: &Opts) {
	let mut rng = Rng::new(opts.seed);
	let mut w = CaseWriter::new(&opts.out);
	let s = new_state();
	let _g = s.enter();
	let thorough = opts.thorough();

	// --- stack.run
	let mut sh: HashMap<&'static str, usize> = HashMap::new();
	let mut n_stack = 0usize;
	for p in small_progs(if thorough { 3 } else { 2 }) {
		for max in [0usize, 1, 2, 3] {
			stack_case(&mut w, &p, max, &mut sh);
			n_stack += 1;
		}
	}
	// plain recursion swept across the limit
	for max in [0usize, 1, 2, 5, 17, 200] {
		for n in (max.saturating_sub(3))..=(max + 3) {
			let mut p = P::Skip;
			for i in 0..n {
				p = P::Frame((i % 2) as u8, Box::new(p));
			}
			stack_case(&mut w, &p, max, &mut sh);
			// recursion with work before and after the call, the last level failing
			let mut q = P::Fail;
			for i in 0..n {
				q = P::Frame((i % 2) as u8, Box::new(P::Seq(Box::new(P::Skip), Box::new(P::Seq(Box::new(q), Box::new(P::Skip))))));
			}
			stack_case(&mut w, &q, max, &mut sh);
			n_stack += 2;
		}
	}
	for _ in 0..(if thorough { 60000 } else { 6000 }) {
		let fuel = 1 + rng.below(24);
		let p = gen_prog(&mut rng, fuel);
		let max = if rng.chance(1, 20) { usize::MAX } else { rng.below(9) };
		stack_case(&mut w, &p, max, &mut sh);
		n_stack += 1;
	}
	set_stack_depth_limit(200);

	// --- bind.prepare
	let mut bh: HashMap<String, usize> = HashMap::new();
	let names = ["a", "b", "c"];
	let mut plists: Vec<Vec<Par>> = vec![vec![]];
	for n in names {
		for d in [false, true] {
			plists.push(vec![Par { name: n, dflt: d }]);
		}
	}
	for n1 in names {
		for d1 in [false, true] {
			for n2 in names {
				for d2 in [false, true] {
					plists.push(vec![Par { name: n1, dflt: d1 }, Par { name: n2, dflt: d2 }]);
				}
			}
		}
	}
	for _ in 0..(if thorough { 600 } else { 80 }) {
		let n = 3 + rng.below(2);
		let pool = ["a", "b", "c", "d", "e"];
		let ps: Vec<Par> = (0..n)
			.map(|i| Par {
				// mostly distinct names, sometimes a repeated one
				name: if rng.chance(1, 8) { pool[rng.below(5)] } else { pool[i] },
				dflt: rng.chance(1, 2),
			})
			.collect();
		plists.push(ps);
	}
	let argn = ["a", "b", "c", "z"];
	let mut nlists: Vec<Vec<&'static str>> = vec![vec![]];
	for a in argn {
		nlists.push(vec![a]);
		for b in argn {
			nlists.push(vec![a, b]);
		}
	}
	for _ in 0..(if thorough { 60 } else { 12 }) {
		let pool = ["a", "b", "c", "d", "e", "z"];
		let n = 3 + rng.below(3);
		nlists.push((0..n).map(|_| pool[rng.below(6)]).collect());
	}
	let mut n_bind = 0usize;
	for ps in &plists {
		for unnamed in 0..=(ps.len() + 1) {
			for named in &nlists {
				bind_case(&mut w, &s, ps, unnamed, named, &mut bh);
				n_bind += 1;
			}
		}
	}

	// --- num.clamp
	let cl: NativeFn!((f64, f64, f64) -> f64) =
		FromUntyped::from_untyped(s.evaluate_snippet("<c04clamp>".to_owned(), "function(x,a,b) std.clamp(x,a,b)".to_owned()).expect("clamp fn")).expect("native");
	let mut vals: Vec<f64> = vec![
		0.0, -0.0, 1.0, -1.0, 0.5, -0.5, 2.0, 5.0, 5e-324, -5e-324, f64::MAX, f64::MIN, f64::MIN_POSITIVE, 1e15, -1e15, 3.0000000000000004,
	];
	for _ in 0..(if thorough { 40 } else { 8 }) {
		let x = f64::from_bits(rng.next());
		if x.is_finite() {
			vals.push(x);
		}
	}
	let mut ch: HashMap<&'static str, usize> = HashMap::new();
	let mut n_clamp = 0usize;
	for &x in &vals {
		for &lo in &vals {
			for &hi in &vals {
				let r = guarded(|| cl.call(x, lo, hi));
				let ans = match r {
					Err(p) => {
						*ch.entry("panic").or_default() += 1;
						json!({"panic": true, "_msg": p})
					}
					Ok(Err(e)) => json!({"err": format!("{}", e.error())}),
					Ok(Ok(v)) => {
						*ch.entry(if lo > hi { "lo>hi" } else { "lo<=hi" }).or_default() += 1;
						json!({"v": key(v)})
					}
				};
				w.case(json!({"op":"c04.clamp","x":key(x),"lo":key(lo),"hi":key(hi),"_f":[x,lo,hi],"size":1}), ans);
				n_clamp += 1;
			}
		}
	}

	// --- str.truncate
	let mut th: HashMap<&'static str, usize> = HashMap::new();
	let mut strs: Vec<String> = Vec::new();
	for n in [0usize, 1, 127, 128, 129, 255, 256, 257, 258, 259, 300, 1000] {
		strs.push("a".repeat(n));
	}
	let units = ["é", "€", "😀", "a", "\u{7f}", "\u{80}", "\u{7ff}", "\u{800}", "\u{ffff}", "\u{10000}", "\u{10ffff}", "\"", "\\", "\n"];
	for u in units {
		for pre in 0..4usize {
			for n in [40usize, 63, 64, 65, 85, 86, 127, 128, 129, 130, 200, 257] {
				strs.push(format!("{}{}", "a".repeat(pre), u.repeat(n)));
				strs.push(format!("{}{}{}", "a".repeat(pre), u.repeat(n), "b".repeat(pre)));
			}
		}
	}
	for _ in 0..(if thorough { 4000 } else { 500 }) {
		let n = 60 + rng.below(260);
		let mut t = String::new();
		for _ in 0..n {
			let m = if rng.chance(1, 2) { 4 } else { units.len() };
			t.push_str(units[rng.below(m)]);
		}
		strs.push(t);
	}
	let mut n_trunc = 0usize;
	for (i, t) in strs.iter().enumerate() {
		truncate_case(&mut w, t, (i % 3) as u8, &mut th);
		n_trunc += 1;
	}
	// the reproduction of the repaired defect, verbatim
	truncate_case(&mut w, &format!("a{}", "é".repeat(200)), 1, &mut th);

	let n = w.n;
	w.finish(
		json!({"engine":"c04","cases":n,
			"rule":"stack.run: real in_frame/in_description_frame/limit_stack_depth/set_stack_depth_limit vs counter machine (log of depth,limit at every leaf); bind.prepare: PreparedFuncVal::new+call vs prepare_call model vs language binding rule; num.clamp: std.clamp on finite doubles (order keys); str.truncate: JsonFormat::debug() manifest of long strings vs byte-offset model vs longest-fitting prefix/suffix",
			"stack_cases": n_stack, "stack_outcomes": sh,
			"bind_cases": n_bind, "bind_outcomes": bh,
			"clamp_cases": n_clamp, "clamp_outcomes": ch,
			"truncate_cases": n_trunc, "truncate_outcomes": th}),
		&opts.out,
	);
}

// ---------------------------------------------------------------------------------------------
// worker
// ---------------------------------------------------------------------------------------------

const CANARY: &str = "local f(n) = if n == 0 then 0 else 1 + f(n - 1); f(20)";

/// bounded forcing of a value: small containers completely, large ones at their ends
fn force(v: &Val, budget: &mut usize, depth: usize) -> jrsonnet_evaluator::Result<bool> {
	if *budget == 0 || depth > 40 {
		return Ok(false);
	}
	*budget -= 1;
	let mut complete = true;
	match v {
		Val::Arr(a) => {
			let len = a.len();
			let idx: Vec<usize> = if len <= 64 {
				(0..len).collect()
			} else {
				complete = false;
				vec![0, 1, len / 2, len - 2, len - 1]
			};
			for i in idx {
				if let Some(x) = a.get(i)? {
					complete &= force(&x, budget, depth + 1)?;
				}
			}
		}
		Val::Obj(o) => {
			let fields = o.fields();
			let n = fields.len();
			for (k, f) in fields.into_iter().enumerate() {
				if k >= 64 {
					complete = false;
					break;
				}
				if let Some(x) = o.get(f)? {
					complete &= force(&x, budget, depth + 1)?;
				}
			}
			let _ = n;
		}
		Val::Str(s) => {
			if s.clone().into_flat().len() > 1_000_000 {
				complete = false;
			}
		}
		_ => {}
	}
	Ok(complete)
}

fn finish_val(v: Val) -> jrsonnet_evaluator::Result<()> {
	let mut budget = 3000usize;
	let complete = force(&v, &mut budget, 0)?;
	if complete && budget > 0 {
		v.manifest(JsonFormat::default())?;
		v.manifest(JsonFormat::debug())?;
		let _ = v.to_string()?;
	}
	Ok(())
}

fn outcome(r: Result<jrsonnet_evaluator::Result<()>, String>) -> Value {
	match r {
		Ok(Ok(())) => json!({"outcome":"ok"}),
		Ok(Err(e)) => json!({"outcome":"err","class":err_class(&e)}),
		// the interner asserts on a null allocation instead of calling handle_alloc_error
		Err(p) if p.contains("!data.is_null()") => json!({"outcome":"oom","panic":p}),
		Err(p) => json!({"outcome":"panic","panic":p}),
	}
}

fn recursion_template(t: usize, k: usize) -> String {
	match t {
		0 => format!("local f(n) = if n == 0 then 0 else 1 + f(n - 1); f({k})"),
		1 => format!("local f(n) = if n == 0 then [] else [n] + f(n - 1); std.length(f({k}))"),
		2 => format!("local o(n) = {{ v: if n == 0 then 0 else 1 + o(n - 1).v }}; o({k}).v"),
		3 => format!("local f(n, acc) = if n == 0 then acc else f(n - 1, acc + 1); f({k}, 0)"),
		_ => format!("local f(n) = if n == 0 then 'x' else std.toString(f(n - 1)); std.length(f({k}))"),
	}
}

fn worker_case(s: &State, case: &Value) -> Value {
	let kind = case["k"].as_str().unwrap_or("");
	let mut ans = match kind {
		"src" => {
			let code = case["code"].as_str().unwrap_or("").to_owned();
			let full = case["full"].as_bool().unwrap_or(false);
			outcome(guarded(|| {
				let v = s.evaluate_snippet("<c04>".to_owned(), code)?;
				if full {
					// what the CLI does: manifest everything
					v.manifest(JsonFormat::default()).map(|_| ())
				} else {
					finish_val(v)
				}
			}))
		}
		"batch" => {
			// many small calls in one round trip: each is evaluated and (boundedly) forced under its
			// own panic guard; only the calls that do not end in a value or an error are reported
			let mut bad = Vec::new();
			let mut n = 0usize;
			let mut errs = 0usize;
			if let Some(codes) = case["codes"].as_array() {
				for (i, c) in codes.iter().enumerate() {
					let code = c.as_str().unwrap_or("").to_owned();
					n += 1;
					let r = outcome(guarded(|| {
						let v = s.evaluate_snippet("<c04b>".to_owned(), code)?;
						finish_val(v)
					}));
					let o = r["outcome"].as_str().unwrap_or("?");
					let depth = verif_current_depth();
					if o == "err" {
						errs += 1;
					}
					if (o != "ok" && o != "err") || depth != 0 {
						let mut r = r;
						r["i"] = json!(i);
						r["depth_after"] = json!(depth);
						bad.push(r);
					}
				}
			}
			json!({"outcome":"ok","n":n,"errs":errs,"bad":bad})
		}
		"parse" => {
			let code = case["code"].as_str().unwrap_or("").to_owned();
			outcome(guarded(|| {
				let src = jrsonnet_ir::Source::new_virtual("<c04p>".into(), code.as_str().into());
				let _ = jrsonnet_ir_parser::parse(&code, &jrsonnet_ir_parser::ParserSettings { source: src });
				Ok(())
			}))
		}
		"limit" => {
			let code = case["code"].as_str().unwrap_or("").to_owned();
			let limit = case["limit"].as_u64().unwrap_or(200) as usize;
			outcome(guarded(|| {
				let _g = limit_stack_depth(limit);
				let v = s.evaluate_snippet("<c04l>".to_owned(), code)?;
				finish_val(v)
			}))
		}
		"file" => {
			let bytes: Vec<u8> = case["bytes"].as_array().map(|a| a.iter().map(|x| x.as_u64().unwrap_or(0) as u8).collect()).unwrap_or_default();
			let path = std::env::temp_dir().join(format!("c04-{}.jsonnet", std::process::id()));
			let _ = std::fs::write(&path, &bytes);
			let p = path.to_string_lossy().to_string();
			let r = outcome(guarded(|| {
				let v = s.import(p.as_str())?;
				finish_val(v)
			}));
			let _ = std::fs::remove_file(&path);
			r
		}
		"tla" => {
			let code = case["code"].as_str().unwrap_or("").to_owned();
			let mut args: HashMap<IStr, TlaArg> = HashMap::new();
			if let Some(o) = case["args"].as_object() {
				for (k, v) in o {
					let a = match v.as_str() {
						Some(t) if t.starts_with("code:") => TlaArg::InlineCode(t[5..].to_owned()),
						Some(t) => TlaArg::String(t.into()),
						None => TlaArg::Val(Val::Null),
					};
					args.insert(k.as_str().into(), a);
				}
			}
			outcome(guarded(|| {
				let v = s.evaluate_snippet("<c04t>".to_owned(), code)?;
				let v = jrsonnet_evaluator::apply_tla(&args, v)?;
				finish_val(v)
			}))
		}
		"sweep" => {
			let limit = case["limit"].as_u64().unwrap_or(200) as usize;
			let t = case["template"].as_u64().unwrap_or(0) as usize;
			let upto = case["upto"].as_u64().unwrap_or(0) as usize;
			let from = case["from"].as_u64().unwrap_or(0) as usize;
			let mut outs = Vec::new();
			let mut panicked = None;
			for k in from..=upto {
				let code = recursion_template(t, k);
				let r = guarded(|| {
					let _g = limit_stack_depth(limit);
					let v = s.evaluate_snippet("<c04s>".to_owned(), code)?;
					finish_val(v)
				});
				outs.push(match r {
					Ok(Ok(())) => "ok".to_owned(),
					Ok(Err(e)) => format!("err:{}", err_class(&e)),
					Err(p) => {
						panicked = Some(p);
						"panic".to_owned()
					}
				});
			}
			let mut j = json!({"outcomes": outs});
			if let Some(p) = panicked {
				j["panic"] = json!(p);
			}
			j
		}
		_ => json!({"outcome":"badcase"}),
	};
	// the clause "after any error the same thread evaluates further programs normally"
	ans["depth"] = json!(verif_current_depth());
	let canary = guarded(|| -> jrsonnet_evaluator::Result<bool> {
		let v = s.evaluate_snippet("<canary>".to_owned(), CANARY.to_owned())?;
		Ok(matches!(v, Val::Num(n) if n.get() == 20.0))
	});
	ans["canary"] = json!(matches!(canary, Ok(Ok(true))));
	ans
}

fn worker_main() {
	// one long-lived evaluation thread with the stack size of a process main thread
	let h = std::thread::Builder::new()
		.stack_size(8 * 1024 * 1024)
		.spawn(|| {
			let s = new_state();
			let _g = s.enter();
			let stdin = std::io::stdin();
			let stdout = std::io::stdout();
			for line in stdin.lock().lines() {
				let Ok(line) = line else { break };
				if line.trim().is_empty() {
					continue;
				}
				let case: Value = serde_json::from_str(&line).unwrap_or(Value::Null);
				let ans = worker_case(&s, &case);
				let mut o = stdout.lock();
				let _ = writeln!(o, "{ans}");
				let _ = o.flush();
			}
		})
		.expect("spawn");
	let _ = h.join();
}

// ---------------------------------------------------------------------------------------------
// parent side of the crash search
// ---------------------------------------------------------------------------------------------

struct Worker {
	child: Child,
	stdin: ChildStdin,
	rx: Receiver<String>,
	errfile: std::path::PathBuf,
}

fn spawn_worker(dir: &std::path::Path, n: usize) -> Worker {
	let exe = std::env::current_exe().expect("exe");
	let errfile = dir.join(format!("worker-{n}.stderr"));
	let ef = std::fs::File::create(&errfile).expect("stderr file");
	// address-space cap: a runaway allocation aborts the worker instead of the machine
	let mut child = Command::new("sh")
		.arg("-c")
		.arg("ulimit -v 4000000; exec \"$0\" c04worker")
		.arg(&exe)
		.stdin(Stdio::piped())
		.stdout(Stdio::piped())
		.stderr(Stdio::from(ef))
		.spawn()
		.expect("spawn worker");
	let stdin = child.stdin.take().expect("stdin");
	let stdout = child.stdout.take().expect("stdout");
	let (tx, rx) = channel();
	std::thread::spawn(move || {
		for line in BufReader::new(stdout).lines() {
			let Ok(line) = line else { break };
			if tx.send(line).is_err() {
				break;
			}
		}
	});
	Worker { child, stdin, rx, errfile }
}

struct Pool {
	dir: std::path::PathBuf,
	w: Option<Worker>,
	spawned: usize,
	timeout: Duration,
}
impl Pool {
	fn ask(&mut self, case: &Value) -> Value {
		if self.w.is_none() {
			self.w = Some(spawn_worker(&self.dir, self.spawned));
			self.spawned += 1;
		}
		let w = self.w.as_mut().expect("worker");
		let sent = writeln!(w.stdin, "{case}").and_then(|()| w.stdin.flush());
		let timeout = case["timeout_ms"].as_u64().map_or(self.timeout, Duration::from_millis);
		let got = if sent.is_ok() { w.rx.recv_timeout(timeout) } else { Err(std::sync::mpsc::RecvTimeoutError::Disconnected) };
		match got {
			Ok(line) => serde_json::from_str(&line).unwrap_or(json!({"outcome":"badanswer","raw":line})),
			Err(std::sync::mpsc::RecvTimeoutError::Timeout) => {
				let mut w = self.w.take().expect("worker");
				let _ = w.child.kill();
				let _ = w.child.wait();
				json!({"outcome":"timeout"})
			}
			Err(_) => {
				let mut w = self.w.take().expect("worker");
				let status = w.child.wait().ok();
				let err = std::fs::read_to_string(&w.errfile).unwrap_or_default();
				let tail: String = err.chars().rev().take(400).collect::<Vec<_>>().into_iter().rev().collect();
				use std::os::unix::process::ExitStatusExt;
				let signal = status.and_then(|s| s.signal());
				let code = status.and_then(|s| s.code());
				// SIGKILL cannot come from the worker itself (kernel OOM killer / operator)
				if err.contains("memory allocation of") || signal == Some(9) {
					json!({"outcome":"oom","signal":signal,"stderr":tail})
				} else {
					json!({"outcome":"crash","signal":signal,"code":code,"stderr":tail,
						"stack_overflow": tail.contains("has overflowed its stack")})
				}
			}
		}
	}
}

const TOKENS: &[&str] = &[
	"local", "function", "if", "then", "else", "for", "in", "self", "super", "$", "error", "assert", "import", "importstr", "importbin",
	"tailstrict", "null", "true", "false", "std", "x", "y", "f", "a", "0", "1", "2", "1e3", "0.5", "1e999", "\"s\"", "'t'", "\"\\u00e9\"", "@'v'",
	"|||\n  t\n|||", "(", ")", "[", "]", "{", "}", ",", ".", ":", "::", ":::", ";", "=", "+", "-", "*", "/", "%", "!", "~", "&", "|", "^", "&&", "||",
	"==", "!=", "<", "<=", ">", ">=", "<<", ">>", "+:", "+::", "//c\n", "/*c*/", "#c\n", " ", "\n", "é", "\"", "'", "\\", "|||", "std.length", "std.map",
];

fn gen_expr(rng: &mut Rng, d: usize) -> String {
	if d == 0 {
		return (*rng.pick(&["0", "1", "-1", "2", "0.5", "1e308", "\"\"", "\"a\"", "\"é\"", "null", "true", "[]", "{}", "x", "y", "self", "$", "std", "[1,2,3]", "{a:1}", "2147483648", "9007199254740993"])).to_owned();
	}
	let e = |rng: &mut Rng| gen_expr(rng, d - 1);
	match rng.below(26) {
		0 => format!("({} + {})", e(rng), e(rng)),
		1 => format!("({} {} {})", e(rng), rng.pick(&["-", "*", "/", "%", "<<", ">>", "&", "|", "^", "<", "==", "!=", "in", "&&", "||"]), e(rng)),
		2 => format!("[{}, {}]", e(rng), e(rng)),
		3 => format!("{{a: {}, b: {}}}", e(rng), e(rng)),
		4 => format!("{{a: {}, b:: self.a, [{}]: 1}}", e(rng), e(rng)),
		5 => format!("local x = {}; {}", e(rng), e(rng)),
		6 => format!("local x = {}, y = {}; {}", e(rng), e(rng), e(rng)),
		7 => format!("(function(x, y=2) {})({})", e(rng), e(rng)),
		8 => format!("(function(x) {})({}, {})", e(rng), e(rng), e(rng)),
		9 => format!("if {} then {} else {}", e(rng), e(rng), e(rng)),
		10 => format!("{}[{}]", e(rng), e(rng)),
		11 => format!("{}[{}:{}:{}]", e(rng), e(rng), e(rng), e(rng)),
		12 => format!("{}.a", e(rng)),
		13 => format!("[x for x in {} if {}]", e(rng), e(rng)),
		14 => format!("{{[std.toString(x)]: x for x in {}}}", e(rng)),
		15 => format!("({} + {{a+: {}, b: super.a}})", e(rng), e(rng)),
		16 => format!("error {}", e(rng)),
		17 => format!("assert {} : {}; {}", e(rng), e(rng), e(rng)),
		18 => format!("std.{}({})", rng.pick(&["length", "toString", "type", "reverse", "objectFields", "manifestJson", "parseJson", "sort", "uniq", "set", "flattenArrays", "abs", "floor", "codepoint", "char", "asciiUpper", "base64", "md5", "escapeStringJson", "manifestYamlDoc", "manifestTomlEx", "manifestXmlJsonml", "prune", "trace"]), e(rng)),
		19 => format!("std.{}({}, {})", rng.pick(&["map", "filter", "join", "split", "repeat", "range", "format", "makeArray", "member", "count", "find", "substr", "slice", "setUnion", "setInter", "objectHas", "mergePatch", "get", "pow", "mod", "foldl", "startsWith", "stripChars", "splitLimit", "trace", "removeAt", "remove"]), e(rng), e(rng)),
		20 => format!("({} % {})", rng.pick(&["\"%s\"", "\"%d\"", "\"%5.3f\"", "\"%(a)s\"", "\"%*d\"", "\"%c\"", "\"%x\"", "\"%e\"", "\"%g\"", "\"%\"", "\"%99999d\"", "\"%.99999f\""]), e(rng)),
		21 => format!("-{}", e(rng)),
		22 => format!("!{}", e(rng)),
		23 => format!("{} tailstrict", format!("(function(x) {})({})", e(rng), e(rng))),
		24 => format!("local f(n) = if n <= 0 then {} else f(n - 1); f({})", e(rng), e(rng)),
		_ => format!("{{ local x = {}, a: x, assert {} }}", e(rng), e(rng)),
	}
}

fn nest_source(kind: &str, n: usize) -> String {
	match kind {
		"paren" => format!("{}1{}", "(".repeat(n), ")".repeat(n)),
		"array" => format!("{}1{}", "[".repeat(n), "]".repeat(n)),
		"object" => format!("{}1{}", "{a:".repeat(n), "}".repeat(n)),
		"neg" => format!("{}1", "-".repeat(n)),
		"not" => format!("{}true", "!".repeat(n)),
		"plus" => format!("1{}", "+1".repeat(n)),
		"call" => format!("local f(x) = x; {}1{}", "f(".repeat(n), ")".repeat(n)),
		"if" => format!("{}1{}", "if true then ".repeat(n), " else 0".repeat(n)),
		"local" => format!("{}1", "local a = 1; ".repeat(n)),
		"index" => format!("[0]{}", "[0:1]".repeat(n)),
		"field" => format!("{{a:1}}{}", " + {}".repeat(n)),
		_ => "1".to_owned(),
	}
}

/// complete format codes whose every prefix is a format string of the `format-prefix` family
const FORMAT_CODES: &[&str] = &[
	"%(key)-+ #05.3hlLd", "%*.*f", "%%", "%c", "%5s", "%(a)s", "%(é)s", "%()s", "%(a b)08.3lle", "%.3e", "%#x", "%-08.2g", "%ld", "%hhd", "%Lf", "%lld", "%hlLhlLi",
	"%*d", "%.*s", "%(key)*d", "%(key).*f", "% d", "%+.0f", "%0#12.5LX", "%65535d", "%.65535hf", "%65536ld", "%-*.*lu", "%#o", "%5.G", "%(a)(b)s", "%(a%s",
];

/// (number of distinct format strings, calls): every prefix of every code of FORMAT_CODES in the
/// contexts bare / behind text / behind a complete code / in front of further text, called through
/// std.format, std.mod and `%` with the value shapes below.  `quick` keeps every prefix and every
/// entry point, and a seeded third of the (context, value) combinations beyond the bare ones.
fn format_prefix_codes(rng: &mut Rng, thorough: bool, lit: &dyn Fn(&str) -> String) -> (usize, Vec<String>) {
	let mut prefixes: Vec<String> = Vec::new();
	for c in FORMAT_CODES {
		let idx: Vec<usize> = c.char_indices().map(|(i, _)| i).skip(1).chain(std::iter::once(c.len())).collect();
		for i in idx {
			let p = c[..i].to_owned();
			if !prefixes.contains(&p) {
				prefixes.push(p);
			}
		}
	}
	let types = ["1", "-1.5", "\"ab\"", "\"é\"", "null", "true", "[1]", "{a: 1}", "function(x) x", "65", "1114112"];
	let mut vals: Vec<String> = vec!["[]".into(), "{}".into()];
	for v in types {
		vals.push(v.to_owned());
		vals.push(format!("[{v}]"));
		vals.push(format!("[{v}, {v}]"));
		vals.push(format!("[5, 2, {v}]"));
		vals.push(format!("[{v}, 2, 1]"));
		vals.push(format!("{{key: {v}}}"));
		vals.push(format!("{{key: {v}, a: {v}, 'é': {v}, '': {v}, 'a b': {v}}}"));
	}
	// quick tier: the bare prefix with every shape of these five types; the rest is a seeded sample
	let mut dense: Vec<String> = vec!["[]".into(), "{}".into()];
	for v in ["1", "\"ab\"", "null", "[1]", "{a: 1}"] {
		dense.extend([v.to_owned(), format!("[{v}]"), format!("[{v}, {v}]"), format!("[5, 2, {v}]"), format!("{{key: {v}}}")]);
	}
	let mut strings = 0usize;
	let mut codes = Vec::new();
	for p in &prefixes {
		// contexts: bare | behind non-ASCII text | behind a complete `%%` | behind a complete `%s` (consumes a value) | in front of text
		let ctx = [p.clone(), format!("é{p}"), format!("%%{p}"), format!("%s{p}"), format!("{p} x")];
		for (ci, f) in ctx.iter().enumerate() {
			strings += 1;
			let fl = lit(f);
			for v in &vals {
				let all = thorough || (ci == 0 && dense.iter().any(|d| v == d));
				if !all && !rng.chance(1, 16) {
					continue;
				}
				codes.push(format!("std.format({fl}, {v})"));
				codes.push(format!("std.mod({fl}, {v})"));
				codes.push(format!("({fl} % {v})"));
			}
		}
	}
	(strings, codes)
}

struct Cx {
	hist: HashMap<String, usize>,
	fam: HashMap<String, usize>,
}
impl Cx {
	#[allow(clippy::too_many_arguments)]
	fn emit(&mut self, w: &mut CaseWriter, pool: &mut Pool, family: &str, case: Value, extra: Value, expect: Option<Vec<&str>>, size: usize) {
		let imp = pool.ask(&case);
		let o = imp["outcome"].as_str().unwrap_or("?").to_owned();
		let tag = if o == "err" { format!("err:{}", imp["class"].as_str().unwrap_or("?")) } else { o };
		*self.hist.entry(tag).or_default() += 1;
		*self.fam.entry(family.to_owned()).or_default() += 1;
		let mut op = json!({"op":"total.observe","family":family,"case":case,"impl":imp,"size":size});
		if let Some(e) = expect {
			op["expect"] = json!(e);
		}
		if let Some(o) = extra.as_object() {
			for (k, v) in o {
				op[k] = v.clone();
			}
		}
		w.case(op, imp);
	}
}

fn run_workers(opts: &Opts) {
	let mut rng = Rng::new(opts.seed ^ 0xC04);
	let mut w = CaseWriter::new(&opts.out);
	let thorough = opts.thorough();
	let mut pool = Pool { dir: opts.out.clone(), w: None, spawned: 0, timeout: Duration::from_secs(if thorough { 20 } else { 10 }) };
	let mut cx = Cx { hist: HashMap::new(), fam: HashMap::new() };
	// replay of a single recorded case
	if let Some(path) = &opts.replay {
		if let Ok(text) = std::fs::read_to_string(path) {
			if let Ok(j) = serde_json::from_str::<Value>(&text) {
				let op = &j["op"];
				if op["op"] == "total.observe" {
					let expect: Option<Vec<String>> = op["expect"].as_array().map(|a| a.iter().filter_map(|x| x.as_str().map(str::to_owned)).collect());
					let ex: Option<Vec<&str>> = expect.as_ref().map(|v| v.iter().map(String::as_str).collect());
					cx.emit(&mut w, &mut pool, op["family"].as_str().unwrap_or("replay"), op["case"].clone(), json!({}), ex, 1);
				}
			}
		}
		let n = w.n;
		w.finish(json!({"engine":"c04w","cases":n,"rule":"replay"}), &opts.out);
		return;
	}

	// A. arbitrary character sequences
	let alphabet: Vec<char> = "{}[]()+-*/%<>=!&|^~.,:;$'\"\\@#_ \n\t\r0123456789abefnlxstu|é€😀\u{0}\u{7f}\u{feff}".chars().collect();
	for _ in 0..(if thorough { 20000 } else { 2500 }) {
		let n = rng.below(40);
		let code: String = (0..n).map(|_| alphabet[rng.below(alphabet.len())]).collect();
		cx.emit(&mut w, &mut pool, "chars", json!({"k":"src","code":code}), json!({}), None, n);
	}
	// invalid UTF-8 and arbitrary bytes reach the evaluator through import
	for _ in 0..(if thorough { 1500 } else { 200 }) {
		let n = rng.below(24);
		let syn: &[u8] = b"{}[]\"'\\u1e+-/*|\n ";
		let bytes: Vec<u8> = (0..n).map(|_| if rng.chance(1, 3) { rng.below(256) as u8 } else { syn[rng.below(syn.len())] }).collect();
		cx.emit(&mut w, &mut pool, "bytes", json!({"k":"file","bytes":bytes}), json!({}), None, n);
	}
	// B. token sequences
	for _ in 0..(if thorough { 30000 } else { 4000 }) {
		let n = 1 + rng.below(14);
		let code: String = (0..n).map(|_| *rng.pick(TOKENS)).collect::<Vec<_>>().join(if rng.chance(1, 4) { "" } else { " " });
		cx.emit(&mut w, &mut pool, "tokens", json!({"k":"src","code":code}), json!({}), None, n);
	}
	// C. generated programs
	for _ in 0..(if thorough { 30000 } else { 4000 }) {
		let d = 1 + rng.below(4);
		let code = gen_expr(&mut rng, d);
		let size = code.len();
		cx.emit(&mut w, &mut pool, "programs", json!({"k":"src","code":code}), json!({}), None, size);
	}

	// D. every std function on boundary-heavy argument tuples
	let s = new_state();
	let fnlist = crate::common::eval_json(&s, "{[k]: std.length(std[k]) for k in std.objectFieldsAll(std) if std.isFunction(std[k])}");
	let long_na = format!("\"a{}\"", "é".repeat(200));
	let argpool: Vec<String> = [
		"null", "true", "false", "\"\"", "\"a\"", "\"é\"", "\"abc\"", "\"%s\"", "\"%99999d\"", "\"%(a)s %*d\"", "\",\"", "\"1\"", "\"{\\\"a\\\":1}\"", "\"😀\"", "-1", "0", "1", "2", "3", "0.5", "-0.5", "1e308", "-1e308", "1e-320", "255", "256", "65535", "65536", "1114111", "1114112", "55296", "2147483647", "2147483648", "-2147483648",
		"-2147483649", "4294967295", "4294967296", "9007199254740991", "9007199254740992", "9223372036854775807", "18446744073709551616", "[]", "[1]", "[1,2,3]", "[3,1,2,1]", "[\"a\",\"b\"]", "[\"é\",\"\"]", "[1,\"a\",null]", "[[1,2],[3]]", "[[]]", "[null]", "[{a:1},{a:2}]", "[-1,0.5,1e308]", "{}", "{a:1}", "{a:1,b:\"x\"}", "{a::1}", "{\"é\":[1]}", "{a:{b:{c:1}}}",
		"function(x) x", "function(x,y) x", "function() 1", "function(x) error \"boom\"", "function(x) [x]", "function(a,b) a == b", "[error \"boom\"]", "{a: error \"boom\"}", "std.range(1,300)", "std.repeat(\"ab\",300)",
	]
	.iter()
	.map(|s| (*s).to_owned())
	.chain(std::iter::once(long_na))
	.collect();
	let mut fnames: Vec<(String, usize)> = Vec::new();
	if let Some(o) = fnlist.get("ok").and_then(|v| v.as_object()) {
		for (k, v) in o {
			fnames.push((k.clone(), v.as_u64().unwrap_or(1) as usize));
		}
	}
	fnames.sort();
	let per_fn = if thorough { 400 } else { 36 };
	for (name, arity) in &fnames {
		if name == "native" || name == "extVar" {
			// looked up by name in host tables only; still exercised with a few arguments below
		}
		let mut tuples: Vec<Vec<usize>> = Vec::new();
		// fewer and more arguments than declared
		tuples.push(vec![]);
		tuples.push((0..arity + 1).map(|_| rng.below(argpool.len())).collect());
		if *arity == 1 {
			for i in 0..argpool.len() {
				tuples.push(vec![i]);
			}
		} else {
			for _ in 0..per_fn {
				tuples.push((0..*arity).map(|_| rng.below(argpool.len())).collect());
			}
			// optional parameters left out
			for k in 1..*arity {
				for _ in 0..4 {
					tuples.push((0..k).map(|_| rng.below(argpool.len())).collect());
				}
			}
		}
		for t in tuples {
			let args: Vec<&str> = t.iter().map(|i| argpool[*i].as_str()).collect();
			let code = format!("std.{}({})", name, args.join(", "));
			let size = code.len();
			cx.emit(&mut w, &mut pool, "std", json!({"k":"src","code":code}), json!({"fn":name}), None, size);
		}
	}

	// D2. dense pairs: every function of two or more parameters gets ALL ordered pairs of a small
	// dense string pool in every pair of positions, and every string with the integers around its
	// length in characters and in bytes (-1, 0, 1, len-1, len, len+1) in every other position.
	// The calls are batched (one worker round trip per function), only the failing ones become
	// individual cases.
	let spool: Vec<String> = vec![
		String::new(), "a".into(), "ab".into(), "é".into(), "éé".into(), "aé".into(), "éa".into(), "😀".into(), "a😀".into(), "e\u{301}".into(), "\u{0}".into(),
		"x".repeat(300), "é".repeat(200),
	];
	let lit = |t: &str| -> String {
		let mut o = String::from("\"");
		for c in t.chars() {
			match c {
				'"' | '\\' => {
					o.push('\\');
					o.push(c);
				}
				c if (c as u32) < 0x20 => o.push_str(&format!("\\u{:04x}", c as u32)),
				c => o.push(c),
			}
		}
		o.push('"');
		o
	};
	let ints_of = |t: &str| -> Vec<i64> {
		let c = t.chars().count() as i64;
		let b = t.len() as i64;
		let mut v = vec![-1, 0, 1, c - 1, c, c + 1, b - 1, b, b + 1];
		v.sort_unstable();
		v.dedup();
		v
	};
	let mut pair_calls = 0usize;
	let mut pair_errs = 0usize;
	let mut pair_bad = 0usize;
	for (name, arity) in &fnames {
		let k = *arity;
		if k < 2 {
			continue;
		}
		let mut codes: Vec<String> = Vec::new();
		let fillers: &[&str] = if k == 2 { &["1"] } else { &["\"a\"", "1"] };
		let call = |args: &[String]| format!("std.{}({})", name, args.join(", "));
		// string x string
		for i in 0..k {
			for j in (i + 1)..k {
				for f in fillers {
					for a in &spool {
						for b in &spool {
							let mut args: Vec<String> = vec![(*f).to_owned(); k];
							args[i] = lit(a);
							args[j] = lit(b);
							codes.push(call(&args));
						}
					}
				}
			}
		}
		// string x integer around its length
		for i in 0..k {
			for j in 0..k {
				if i == j {
					continue;
				}
				for f in fillers {
					for a in &spool {
						for n in ints_of(a) {
							let mut args: Vec<String> = vec![(*f).to_owned(); k];
							args[i] = lit(a);
							args[j] = n.to_string();
							codes.push(call(&args));
						}
					}
				}
			}
		}
		// string x integer x integer (substr, slice, splitLimit …)
		if k >= 3 {
			for i in 0..k {
				for j in 0..k {
					for l in (j + 1)..k {
						if i == j || i == l {
							continue;
						}
						for a in &spool {
							let ns = ints_of(a);
							for n1 in &ns {
								for n2 in &ns {
									// quick tier: the second integer only from the ends of the range
									let c = a.chars().count() as i64;
									if !thorough && ![-1, 0, 1, c, a.len() as i64 + 1].contains(n2) {
										continue;
									}
									if !thorough && k >= 4 && (n1 + n2) % 2 != 0 {
										continue;
									}
									let mut args: Vec<String> = vec!["1".to_owned(); k];
									args[i] = lit(a);
									args[j] = n1.to_string();
									args[l] = n2.to_string();
									codes.push(call(&args));
								}
							}
						}
					}
				}
			}
		}
		for chunk in codes.chunks(4000) {
			let case = json!({"k":"batch","codes":chunk,"timeout_ms":180000});
			let imp = pool.ask(&case);
			*cx.fam.entry("std-pairs".to_owned()).or_default() += 1;
			pair_calls += chunk.len();
			let whole = imp["outcome"].as_str().unwrap_or("?") == "ok";
			if whole {
				pair_errs += imp["errs"].as_u64().unwrap_or(0) as usize;
				let bad: Vec<Value> = imp["bad"].as_array().cloned().unwrap_or_default();
				pair_bad += bad.len();
				for b in &bad {
					let i = b["i"].as_u64().unwrap_or(0) as usize;
					let mut one = b.clone();
					one["depth"] = b["depth_after"].clone();
					one["canary"] = imp["canary"].clone();
					let code = chunk[i].clone();
					let size = code.len();
					let tag = one["outcome"].as_str().unwrap_or("?").to_owned();
					*cx.hist.entry(format!("pairs:{tag}")).or_default() += 1;
					w.case(json!({"op":"total.observe","family":"std-pairs","case":{"k":"src","code":code},"fn":name,"impl":one,"size":size}), one);
				}
				let mut summary = imp.clone();
				summary["bad"] = json!(bad.len());
				w.case(json!({"op":"total.observe","family":"std-pairs","fn":name,"batch":chunk.len(),"_first":chunk[0],"impl":summary,"size":chunk.len(),"trivial":false}), summary);
			} else {
				// the worker died or hung somewhere in the batch: find the call(s) one by one
				for code in chunk {
					let size = code.len();
					cx.emit(&mut w, &mut pool, "std-pairs", json!({"k":"src","code":code,"timeout_ms":10000}), json!({"fn":name}), None, size);
				}
			}
		}
	}

	// D3. format strings cut off inside a conversion: every PREFIX (at every character boundary) of a
	// set of complete format codes — after `%`, after `(`, inside and after the key, after each flag,
	// after the width, after `.`, after the precision, after each length modifier — bare, behind text
	// and behind a complete code, through std.format, std.mod and the `%` operator, with 0..2 values
	// of each type (bare, in an array, behind two `*` operands, as the mapping's field).  Batched like
	// D2: only calls that end in neither a value nor an error become individual cases.
	let fmt_t0 = std::time::Instant::now();
	let (fmt_strings, fmt_calls, fmt_errs, fmt_bad) = {
		let codes = format_prefix_codes(&mut rng, thorough, &lit);
		let strings = codes.0;
		let codes = codes.1;
		let mut calls = 0usize;
		let mut errs = 0usize;
		let mut nbad = 0usize;
		for chunk in codes.chunks(4000) {
			let case = json!({"k":"batch","codes":chunk,"timeout_ms":180000});
			let imp = pool.ask(&case);
			*cx.fam.entry("format-prefix".to_owned()).or_default() += 1;
			calls += chunk.len();
			if imp["outcome"].as_str().unwrap_or("?") == "ok" {
				errs += imp["errs"].as_u64().unwrap_or(0) as usize;
				let bad: Vec<Value> = imp["bad"].as_array().cloned().unwrap_or_default();
				nbad += bad.len();
				for b in &bad {
					let i = b["i"].as_u64().unwrap_or(0) as usize;
					let mut one = b.clone();
					one["depth"] = b["depth_after"].clone();
					one["canary"] = imp["canary"].clone();
					let code = chunk[i].clone();
					let size = code.len();
					let tag = one["outcome"].as_str().unwrap_or("?").to_owned();
					*cx.hist.entry(format!("format-prefix:{tag}")).or_default() += 1;
					w.case(json!({"op":"total.observe","family":"format-prefix","case":{"k":"src","code":code},"impl":one,"size":size}), one);
				}
				let mut summary = imp.clone();
				summary["bad"] = json!(bad.len());
				w.case(json!({"op":"total.observe","family":"format-prefix","batch":chunk.len(),"_first":chunk[0],"impl":summary,"size":chunk.len(),"trivial":false}), summary);
			} else {
				for code in chunk {
					let size = code.len();
					cx.emit(&mut w, &mut pool, "format-prefix", json!({"k":"src","code":code,"timeout_ms":10000}), json!({}), None, size);
				}
			}
		}
		(strings, calls, errs, nbad)
	};
	let fmt_secs = fmt_t0.elapsed().as_secs();

	// E. recursion depth swept across the frame limit
	let limits: &[usize] = if thorough { &[1, 2, 5, 20, 100, 200, 512, 2000] } else { &[2, 5, 20, 200, 512] };
	for &limit in limits {
		for t in [0usize, 1, 2, 3, 4] {
			let case = json!({"k":"sweep","limit":limit,"template":t,"from":0,"upto":limit + 4,"timeout_ms":180000});
			let imp = pool.ask(&case);
			*cx.fam.entry("sweep".to_owned()).or_default() += 1;
			// each recursion level costs between 1 and 8 frames: first failing depth in [limit/8, limit]
			w.case(json!({"op":"total.sweep","case":case,"_program":recursion_template(t, 7),"limit":limit,"lo":limit / 8,"hi":limit,"impl":imp,"size":limit}), imp);
		}
	}
	// recursion far below a large limit needs far more native stack than the thread has
	for (limit, k) in [(20000usize, 5000usize), (100000, 20000)] {
		if !thorough && limit > 20000 {
			continue;
		}
		for t in [0usize, 2] {
			let code = recursion_template(t, k);
			cx.emit(&mut w, &mut pool, "deep-recursion", json!({"k":"limit","limit":limit,"code":code}), json!({"levels":k}), Some(vec!["ok", "err:stack"]), k);
		}
	}
	// runaway recursion and self-dependent values
	for code in [
		"local f(x) = f(x) + 1; f(0)",
		"local f(x) = [f(x)]; f(0)",
		"local o = { a: o.a + 1 }; o.a",
		"{ a: self.b, b: self.a }.a",
		"local a = b, b = a; a",
		"local a = a; a",
		"local a = a + 1; a",
		"{ a: self.a }.a",
		"{ a: $.a }.a",
		"local x = [x[0]]; x[0]",
		"local o = { a: o }; std.manifestJson(o)",
		"local o = { a: o }; o",
		"local a = [a]; a",
		"local f() = f(); f()",
		"std.foldl(function(a, b) a + b, std.range(1, 10), 0) + (local g(x) = g(x); g(1))",
		"local s = { x: s.y, y: s.z, z: s.x }; s.x",
	] {
		cx.emit(&mut w, &mut pool, "selfdep", json!({"k":"src","code":code,"full":true,"timeout_ms":5000}), json!({"strict":true}), Some(vec!["err:stack", "err:infrec"]), code.len());
	}
	// runaway recursion whose levels are connected by a field / element access instead of a pending
	// call, and self-dependent fields met while the object's assertions run: must end in an error too
	// (`strict`: no answer within the time limit counts as a failure, not as an undecided case)
	// (runaway recursion has no pending marker to meet: the frame limit must stop it; a field that
	// depends on itself must be reported as such, asserting or not — not merely run out of frames)
	for (code, want) in [
		("local o(n) = { v: 1 + o(n + 1).v }; o(0).v", "err:stack"),
		("local a(n) = [1 + a(n + 1)[0]]; a(0)[0]", "err:stack"),
		("local o = { f(n): { v: 1 + o.f(n + 1).v } }; o.f(0).v", "err:stack"),
		("{ assert self.a == 1, a: self.a }", "err:infrec"),
		("{ assert self.a == 1, a: self.a }.a", "err:infrec"),
		("{ assert self.a == 1, a: self.b, b: self.a }", "err:infrec"),
		("{ assert self.a.b == 1, a: { b: $.a.b } }", "err:infrec"),
		("{ a: $.a } + { assert self.a < 1 }", "err:infrec"),
	] {
		cx.emit(&mut w, &mut pool, "unbounded", json!({"k":"src","code":code,"timeout_ms":3000}), json!({"strict":true}), Some(vec![want]), code.len());
	}

	// self-referential (infinitely deep, lazily built) values handed to recursive native code
	for (bind, val) in [("local x = {a: $}", "x"), ("local x = [x]", "x"), ("local x = {a: [x]}", "x")] {
		for call in [
			"std.mergePatch(1, V)", "std.mergePatch({}, V)", "std.mergePatch(V, V)", "std.prune(V)", "std.manifestTomlEx({k: V}, ' ')", "std.flattenDeepArray([V])",
			"std.objectRemoveKey({k: V}, 'b') == {k: V}", "std.manifestPython(V)", "std.manifestPythonVars({k: V})", "[V] < [V]", "std.sort([[V], [V]])", "std.deepJoin([V])",
			"std.manifestJson(V)", "std.manifestJsonEx(V, ' ')", "std.toString(V)", "std.manifestYamlDoc(V)", "std.manifestYamlStream([V])", "std.manifestXmlJsonml(['a', V])", "std.manifestIni({sections: {s: {k: V}}})",
			"V == V", "[V] == [V]", "std.equals([V], [V])", "std.assertEqual([V], [V])", "std.length(std.uniq([[V], [V]]))", "std.set([[V], [V]])", "std.setMember([V], [[V]])", "std.member([[V]], [V])", "std.count([[V]], [V])", "std.find([V], [[V]])",
			"std.contains([[V]], [V])", "std.remove([[V]], [V])", "std.max([V], [V])", "std.minArray([[V], [V]])", "std.escapeStringJson(V)", "std.manifestJsonMinified(V)", "'%s' % [V]", "'' + V", "std.trace(V, 1)", "std.objectValuesAll(V) == V", "std.get(V, 'a', 0) == V",
		] {
			let code = format!("{bind}; {}", call.replace('V', val));
			let size = code.len();
			cx.emit(&mut w, &mut pool, "cyclic", json!({"k":"src","code":code,"full":true,"timeout_ms":5000}), json!({"strict":true,"call":call}), Some(vec!["ok", "err"]), size);
		}
	}

	// two DIFFERENT infinitely deep values: no pointer-equality shortcut can end the comparison
	for (bind, a, b) in [("local x = [x], y = [y]", "x", "y"), ("local x = {a: $}, y = {a: $}", "x", "y"), ("local x = {a: [x]}, y = {a: [y]}", "x", "y"), ("local f(n) = [f(n + 1)]", "f(0)", "f(1)")] {
		for call in ["A == B", "[A] == [B]", "std.equals(A, B)", "A != B", "std.assertEqual(A, B)", "std.member([A], B)", "std.count([A], B)", "std.uniq([A, B])", "std.set([A, B])", "A < B", "std.sort([A, B])", "std.setMember(A, [B])", "std.setUnion([A], [B])", "std.remove([A], B)", "std.find(A, [B])", "std.mergePatch(A, B)", "std.minArray([A, B])"] {
			let code = format!("{bind}; {}", call.replace('A', a).replace('B', b));
			let size = code.len();
			cx.emit(&mut w, &mut pool, "cyclic", json!({"k":"src","code":code,"full":true,"timeout_ms":5000}), json!({"strict":true,"call":call}), Some(vec!["ok", "err"]), size);
		}
	}
	// assertions that read fields of the object being read are not self-dependence
	for (code, want) in [
		("{ assert self.a == 1, a: 1 }.a", "ok"),
		("{ assert self.a == 1, a: 1 }", "ok"),
		("{ assert self.a == self.b, a: self.b, b: 1 }", "ok"),
		("{ assert self.a == self.b, a: self.b, b: 1 }.a", "ok"),
		("{ assert self.a == 1 && self.a == 1, a: 1 }.a", "ok"),
		("{ assert self.a.b == 1, a: { assert $.a.b == 1, b: 1 } }.a.b", "ok"),
		("({ a: 1 } + { assert self.a == 1 }).a", "ok"),
		("({ a: 1, b: self.a } + { assert self.b == super.b, a: 2 }).b", "ok"),
		("{ assert self.a == 2, a: 1 }.a", "err:assert"),
		("{ assert self.b == 1, a: 1 }.a", "err"),
	] {
		cx.emit(&mut w, &mut pool, "assert-read", json!({"k":"src","code":code,"full":true,"timeout_ms":5000}), json!({"strict":true}), Some(vec![want]), code.len());
	}

	// lazily computed arrays/objects whose elements read other elements of the SAME value while they are
	// being computed (memo tables): re-entering the value's cache must neither panic nor be mistaken for
	// self-dependence; an element that reads itself is infinite recursion
	{
		let mut progs: Vec<(String, &str)> = Vec::new();
		for n in [1usize, 2, 6, 40] {
			for (mk, len) in [
				(format!("std.map(function(i) if i == 0 then 1 else t[i - 1] * 2 % 1000, std.range(0, {}))", n - 1), n),
				(format!("std.makeArray({n}, function(i) if i == 0 then 1 else t[i - 1] + 1)"), n),
				(format!("std.mapWithIndex(function(i, x) if i == 0 then x else t[i - 1] + x, std.repeat([1], {n}))"), n),
				(format!("std.filterMap(function(x) true, function(i) if i == 0 then 1 else t[i - 1] + 1, std.range(0, {}))", n - 1), n),
				(format!("[if i == 0 then 1 else t[i - 1] + 1 for i in std.range(0, {})]", n - 1), n),
				(format!("std.map(function(i) if i == {} then 1 else t[i + 1] + 1, std.range(0, {}))", n - 1, n - 1), n),
				(format!("std.map(function(i) std.length(t) + i, std.range(0, {}))", n - 1), n),
			] {
				let _ = len;
				progs.push((format!("local t = {mk}; t"), "ok"));
				progs.push((format!("local t = {mk}; std.foldl(function(a, b) a + b, t, 0)"), "ok"));
				progs.push((format!("local t = {mk}; [t[std.length(t) - 1], t[0]]"), "ok"));
			}
		}
		for mk in [
			"std.map(function(x) t[0], [1])",
			"std.makeArray(2, function(i) t[1 - i])",
			"std.mapWithIndex(function(i, x) t[i], [1, 2])",
			"[t[0]]",
			"std.map(function(x) std.foldl(function(a, b) a + b, t, 0), [1, 2])",
		] {
			progs.push((format!("local t = {mk}; t"), "err:infrec"));
			progs.push((format!("local t = {mk}; t[0]"), "err:infrec"));
		}
		// objects: a field reading its siblings through std.mapWithKey / objectValues views
		progs.push(("local o = std.mapWithKey(function(k, v) if k == 'a' then 1 else o.a + v, { a: 0, b: 1, c: 2 }); o".into(), "ok"));
		progs.push(("local o = { a: 1, b: std.objectValues(o)[0] + 1 }; o".into(), "ok"));
		progs.push(("local o = std.mapWithKey(function(k, v) o[k], { a: 0 }); o".into(), "err:infrec"));
		for (code, want) in progs {
			cx.emit(&mut w, &mut pool, "self-read", json!({"k":"src","code":code,"full":true,"timeout_ms":5000}), json!({"strict":true}), Some(vec![want]), code.len());
		}
	}

	// F. top-level arguments
	let fsrcs = ["function(a) a", "function(a, b=2) [a, b]", "function() 1", "function(a, b) a + b", "function(a=1, b=2, c=3) [a,b,c]", "1", "{a: function(x) x}", "function(a, a) a", "function(a, a=1) a", "function(x) error 'e'", "function(a) function(b) a"];
	let argsets: Vec<Value> = vec![
		json!({}), json!({"a":"1"}), json!({"b":"2"}), json!({"a":"1","b":"2"}), json!({"a":"1","b":"2","c":"3"}), json!({"a":"1","b":"2","c":"3","d":"4"}),
		json!({"z":"1"}), json!({"a":"code:1+1"}), json!({"a":"code:error 'x'"}), json!({"a":"code:)("}), json!({"é":"1"}), json!({"":"1"}),
	];
	for f in fsrcs {
		for a in &argsets {
			cx.emit(&mut w, &mut pool, "tla", json!({"k":"tla","code":f,"args":a}), json!({}), None, f.len());
		}
	}
	// duplicate parameter names reached through an ordinary call with named arguments
	for code in ["(function(a, a) a)(a=1)", "(function(a, a) a)(1, a=1)", "(function(a, b, a) a)(a=1, b=2)", "local f(x, x) = x; f(x=1)", "(function(a, a) a)(1, 2)", "(function(a, a=3) a)(1)"] {
		cx.emit(&mut w, &mut pool, "dupparam", json!({"k":"src","code":code}), json!({}), None, code.len());
	}

	// numbers at the edge of the double range through every numeric conversion
	for conv in ["d", "i", "u", "o", "x", "X", "e", "E", "f", "F", "g", "G", "c", "s", "5.3f", ".0f", "#.9g", "020.10e", "-20d", "+.3f"] {
		for v in ["1e308", "-1e308", "1.7976931348623157e308", "1e19", "-1e19", "9223372036854775808", "1e-320", "0.5", "-0"] {
			let code = format!("\"%{conv}\" % {v}");
			let size = code.len();
			cx.emit(&mut w, &mut pool, "format-extreme", json!({"k":"src","code":code}), json!({}), None, size);
		}
	}

	// G. sequences of failing and succeeding evaluations on the one worker thread
	let seq = ["error 'x'", "1 + 1", "local f(x) = f(x) + 1; f(0)", "[1,2][5]", "{a: 1}", "local a = a; a", "std.parseJson('{')", "std.range(1, 3)", "assert false; 1", ")(", "std.format('%d', 'x')", "local f(n) = if n == 0 then 0 else 1 + f(n - 1); f(100)"];
	for _ in 0..(if thorough { 3000 } else { 400 }) {
		let code = *rng.pick(&seq);
		cx.emit(&mut w, &mut pool, "sequence", json!({"k":"src","code":code}), json!({}), None, code.len());
	}

	// H. deeply nested sources
	let kinds = ["paren", "array", "object", "neg", "not", "plus", "call", "if", "local", "index", "field"];
	let depths: &[usize] = if thorough { &[8, 32, 64, 128, 400, 1000, 3000, 10000, 100000] } else { &[8, 32, 64, 400, 3000, 100000] };
	for kind in kinds {
		for &n in depths {
			let code = nest_source(kind, n);
			// the source is rebuilt from (kind, n) on replay; keep the op small
			let imp = pool.ask(&json!({"k":"src","code":code}));
			let o = imp["outcome"].as_str().unwrap_or("?").to_owned();
			*cx.hist.entry(format!("nest:{o}")).or_default() += 1;
			*cx.fam.entry("nest".to_owned()).or_default() += 1;
			w.case(json!({"op":"total.observe","family":"nest","nest_kind":kind,"n":n,"impl":imp,"size":n}), imp);
		}
	}

	let n = w.n;
	let spawned = pool.spawned;
	w.finish(
		json!({"engine":"c04w","cases":n,
			"rule":"worker subprocesses (8 MiB evaluation thread, overflow-checked build): outcome must be a value or a Jsonnet error (never panic/abort/signal), frame counter back at 0 and a canary program evaluates correctly on the same thread after every case; recursion sweeps: ok* then stack-overflow errors with the first failure in [limit/8, limit]; std-pairs: every std function of >= 2 parameters x all ordered pairs of a 13-string dense pool (empty, ASCII, 2/3/4-byte, combining, NUL, long) in every pair of positions, and every string x the integers around its length in chars and in bytes, batched per function; format-prefix: every prefix of 32 complete format codes (mapping key, every flag, width, `.`, precision, `*`, length modifiers h/l/L, every conversion, `%%`), bare / behind text / behind a complete code, through std.format, std.mod and `%`, with 0..2 values of each type bare, in arrays, behind two `*` operands and as the mapping's fields",
			"families": cx.fam, "outcomes": cx.hist, "workers_spawned": spawned, "std_functions": fnames.len(), "arg_pool": argpool.len(),
			"pair_pool": 13, "pair_calls": pair_calls, "pair_calls_err": pair_errs, "pair_calls_failed": pair_bad,
			"format_prefix_strings": fmt_strings, "format_prefix_calls": fmt_calls, "format_prefix_calls_err": fmt_errs, "format_prefix_calls_failed": fmt_bad, "_format_prefix_seconds": fmt_secs}),
		&opts.out,
	);
}
