//! C07 — imports resolve, load and evaluate as specified.
//!
//! A *scenario* is a JSON value: a sandbox file-system layout (directories, files with exact
//! bytes, symlinks), an importer directory, the library search path and a list of top-level
//! operations (import / importstr / importbin with a path spelling, optionally with a resolver
//! fault injected at the k-th resolver call of that operation).  All operations of a scenario run
//! on ONE evaluation state.  The scenario JSON is the single source of truth: it is materialised
//! on the real file system under the engine's out dir and given verbatim to the Lean driver.
//!
//! engine `c07`    : the real `State` + the real `FileImportResolver` wrapped in a recording
//!                   resolver (log of every resolve/load call and its result, fault injection);
//!                   writes `import.replay` (full log + outcomes, compared with the Lean model) and
//!                   `import.outcomes` (outcomes only, compared with the cache-free reference).
//! engine `c07cli` : the real `jrsonnet` binary with `-J` flags and `JSONNET_PATH`
//!                   (search-path assembly of `MiscOpts::import_resolver` + `main` wiring);
//!                   writes `import.cli`.
use std::{
	cell::{Cell, RefCell},
	collections::BTreeMap,
	fs,
	path::{Path, PathBuf},
	process::Command,
};

use jrsonnet_evaluator::{
	error::{Error, ErrorKind},
	manifest::JsonFormat,
	trace::PathResolver,
	AsPathLike, FileImportResolver, ImportResolver, Result as JrResult, State,
};
use jrsonnet_gcmodule::Acyclic;
use jrsonnet_ir::{SourceDirectory, SourceFile, SourcePath};
use serde_json::{json, Value};

use crate::common::{guarded, CaseWriter, Opts, Rng};

// ------------------------------------------------------------------------------------------
// recording / faulting resolver
// ------------------------------------------------------------------------------------------

thread_local! {
	static LOG: RefCell<Vec<Value>> = const { RefCell::new(Vec::new()) };
	static CALLS: Cell<usize> = const { Cell::new(0) };
	/// (k, mode): the k-th resolver call (1-based, resolve and load calls counted together) of the
	/// current top-level operation is disturbed. mode "fail": the call returns an I/O error
	/// without reaching the real resolver; mode "vanish": if the call is a load, the file is
	/// removed from disk first and the REAL resolver reports what it then sees.
	static FAULT: RefCell<Option<(usize, String)>> = const { RefCell::new(None) };
	static ROOT: RefCell<PathBuf> = RefCell::new(PathBuf::new());
	static VANISHED: RefCell<Vec<(PathBuf, Vec<u8>)>> = const { RefCell::new(Vec::new()) };
}

fn rel_of(p: &Path) -> String {
	ROOT.with_borrow(|r| match p.strip_prefix(r) {
		Ok(x) => x.to_string_lossy().into_owned(),
		Err(_) => format!("<outside>{}", p.display()),
	})
}
fn show_source(p: &SourcePath) -> String {
	if let Some(f) = p.downcast_ref::<SourceFile>() {
		format!("f:{}", rel_of(f.path()))
	} else if let Some(d) = p.downcast_ref::<SourceDirectory>() {
		format!("d:{}", rel_of(d.path()))
	} else if p.is_default() {
		"default".to_owned()
	} else {
		format!("?{p}")
	}
}
fn show_spelling(p: &dyn AsPathLike) -> String {
	let s = p.as_path().to_owned().to_string();
	let root = ROOT.with_borrow(|r| r.to_string_lossy().into_owned());
	s.replace(&root, "<R>")
}

pub fn cls(e: &Error) -> &'static str {
	use ErrorKind::*;
	match e.error() {
		ImportFileNotFound(..) => "notfound",
		ResolvedFileNotFound(..) => "resolved-missing",
		ImportBadFileUtf8(..) => "utf8",
		ImportIo(..) => "io",
		ImportNotSupported(..) => "unsupported",
		ImportIsADirectory(..) => "isdir",
		ImportSyntaxError { .. } => "syntax",
		InfiniteRecursionDetected => "infrec",
		StackOverflow => "stack",
		RuntimeError(m) if m.contains("special file") => "special",
		_ => "other",
	}
}

#[derive(Acyclic)]
struct Rec {
	inner: FileImportResolver,
}
impl Rec {
	fn tick() -> (usize, Option<String>) {
		let n = CALLS.get() + 1;
		CALLS.set(n);
		let mode = FAULT.with_borrow(|f| match f {
			Some((k, m)) if *k == n => Some(m.clone()),
			_ => None,
		});
		(n, mode)
	}
	fn do_resolve(&self, from: &SourcePath, path: &dyn AsPathLike) -> JrResult<SourcePath> {
		let (_n, mode) = Self::tick();
		let r = if mode.as_deref() == Some("fail") {
			Err(ErrorKind::ImportIo("injected resolver fault".to_owned()).into())
		} else {
			self.inner.resolve_from(from, path)
		};
		let shown = match &r {
			Ok(p) => format!("ok:{}", show_source(p)),
			Err(e) => format!("err:{}", cls(e)),
		};
		LOG.with_borrow_mut(|l| l.push(json!(["r", show_source(from), show_spelling(path), shown])));
		r
	}
}
impl ImportResolver for Rec {
	fn resolve_from(&self, from: &SourcePath, path: &dyn AsPathLike) -> JrResult<SourcePath> {
		self.do_resolve(from, path)
	}
	fn resolve_from_default(&self, path: &dyn AsPathLike) -> JrResult<SourcePath> {
		self.do_resolve(&SourcePath::default(), path)
	}
	fn load_file_contents(&self, resolved: &SourcePath) -> JrResult<Vec<u8>> {
		let (_n, mode) = Self::tick();
		let r = match mode.as_deref() {
			Some("fail") => Err(ErrorKind::ImportIo("injected loader fault".to_owned()).into()),
			Some("vanish") => {
				if let Some(p) = resolved.path() {
					if let Ok(old) = fs::read(p) {
						let _ = fs::remove_file(p);
						VANISHED.with_borrow_mut(|v| v.push((p.to_owned(), old)));
					}
				}
				self.inner.load_file_contents(resolved)
			}
			_ => self.inner.load_file_contents(resolved),
		};
		let shown = match &r {
			Ok(_) => "ok".to_owned(),
			Err(e) => format!("err:{}", cls(e)),
		};
		LOG.with_borrow_mut(|l| l.push(json!(["l", show_source(resolved), shown])));
		r
	}
}

// ------------------------------------------------------------------------------------------
// scenario JSON helpers
// ------------------------------------------------------------------------------------------

fn comps(v: &Value) -> Vec<String> {
	v.as_array()
		.map(|a| a.iter().filter_map(|x| x.as_str().map(str::to_owned)).collect())
		.unwrap_or_default()
}
fn join(root: &Path, c: &[String]) -> PathBuf {
	let mut p = root.to_owned();
	for x in c {
		p.push(x);
	}
	p
}
/// text of a spelling `{"abs":bool,"c":[..]}`; `root` is the textual sandbox root
fn spelling_text(sp: &Value, root: &str) -> String {
	let c = comps(&sp["c"]).join("/");
	if sp["abs"].as_bool() == Some(true) {
		format!("{root}/{c}")
	} else {
		c
	}
}
fn bytes_of(v: &Value) -> Vec<u8> {
	v.as_array()
		.map(|a| a.iter().map(|x| x.as_u64().unwrap_or(0) as u8).collect())
		.unwrap_or_default()
}

/// writes the layout of `sc["fs"]` under `root` (fresh directory)
fn materialise(sc: &Value, root: &Path) {
	let _ = fs::remove_dir_all(root);
	fs::create_dir_all(root).expect("mkdir sandbox");
	let Some(nodes) = sc["fs"].as_array() else { return };
	// directories first (shortest first), then files, then links
	let mut dirs: Vec<Vec<String>> = nodes
		.iter()
		.filter(|n| n["k"] == "dir")
		.map(|n| comps(&n["p"]))
		.collect();
	dirs.sort_by_key(Vec::len);
	for d in dirs {
		fs::create_dir_all(join(root, &d)).expect("mkdir");
	}
	for n in nodes {
		if n["k"] == "file" {
			fs::write(join(root, &comps(&n["p"])), bytes_of(&n["bytes"])).expect("write file");
		}
	}
	for n in nodes {
		if n["k"] == "link" {
			#[cfg(unix)]
			std::os::unix::fs::symlink(join(root, &comps(&n["to"])), join(root, &comps(&n["p"])))
				.expect("symlink");
		}
	}
}

fn outcome_err(e: &Error) -> Value {
	json!({"err": cls(e), "_msg": format!("{}", e.error())})
}

/// runs all operations of a scenario on one fresh state; returns per-op (outcome, log)
fn run_scenario(sc: &Value, root: &Path) -> Vec<(Value, Vec<Value>)> {
	materialise(sc, root);
	ROOT.set(root.to_owned());
	let root_s = root.to_string_lossy().into_owned();
	let jpaths: Vec<PathBuf> = sc["jpaths"]
		.as_array()
		.map(|a| a.iter().map(|j| join(root, &comps(j))).collect())
		.unwrap_or_default();
	let mut b = State::builder();
	b.context_initializer(jrsonnet_stdlib::ContextInitializer::new(
		PathResolver::new_cwd_fallback(),
	))
	.import_resolver(Rec {
		inner: FileImportResolver::new(jpaths),
	});
	let s = b.build();
	let from = SourcePath::new(SourceDirectory::new(join(root, &comps(&sc["from"]))));
	let mut out = Vec::new();
	let empty = Vec::new();
	for op in sc["ops"].as_array().unwrap_or(&empty) {
		LOG.with_borrow_mut(Vec::clear);
		CALLS.set(0);
		let fault = op["fault"].as_u64().map(|k| {
			(
				k as usize,
				op["fmode"].as_str().unwrap_or("fail").to_owned(),
			)
		});
		FAULT.set(fault);
		let sp = spelling_text(&op["sp"], &root_s);
		let kind = op["kind"].as_str().unwrap_or("import").to_owned();
		let res = guarded(|| -> Value {
			let _entered = s.enter();
			match kind.as_str() {
				"import" => {
					let r = s
						.import_from(&from, sp.as_str())
						.and_then(|v| v.manifest(JsonFormat::minify()));
					match r {
						Ok(text) => match text.parse::<u64>() {
							Ok(n) => json!({"num": n}),
							Err(_) => json!({"other": text}),
						},
						Err(e) => outcome_err(&e),
					}
				}
				"str" => match s
					.resolve_from(&from, &sp.as_str())
					.and_then(|p| s.import_resolved_str(p))
				{
					Ok(v) => json!({"str": v.chars().map(|c| c as u32).collect::<Vec<_>>()}),
					Err(e) => outcome_err(&e),
				},
				_ => match s
					.resolve_from(&from, &sp.as_str())
					.and_then(|p| s.import_resolved_bin(p))
				{
					Ok(v) => json!({"bin": v.as_slice().to_vec()}),
					Err(e) => outcome_err(&e),
				},
			}
		});
		FAULT.set(None);
		// a vanished file comes back once the fault has cleared
		VANISHED.with_borrow_mut(|v| {
			for (p, data) in v.drain(..) {
				let _ = fs::write(p, data);
			}
		});
		let outcome = match res {
			Ok(v) => v,
			Err(p) => json!({"panic": p}),
		};
		out.push((outcome, LOG.with_borrow(Clone::clone)));
	}
	out
}

/// "read at most once": per resolved file, loader calls <= 1 + loader calls that failed or whose
/// bytes were rejected (the operation they belong to ended in a utf8 error for that file)
fn once_only(results: &[(Value, Vec<Value>)]) -> bool {
	let mut loads: BTreeMap<String, usize> = BTreeMap::new();
	let mut failed: BTreeMap<String, usize> = BTreeMap::new();
	for (outcome, log) in results {
		let n = log.len();
		for (i, e) in log.iter().enumerate() {
			if e[0] == "l" {
				let p = e[1].as_str().unwrap_or("").to_owned();
				*loads.entry(p.clone()).or_default() += 1;
				let rejected = i + 1 == n && outcome["err"] == "utf8";
				if e[2] != "ok" || rejected {
					*failed.entry(p).or_default() += 1;
				}
			}
		}
	}
	loads
		.iter()
		.all(|(p, n)| *n <= 1 + failed.get(p).copied().unwrap_or(0))
}

// ------------------------------------------------------------------------------------------
// generator
// ------------------------------------------------------------------------------------------

#[derive(Clone, Debug)]
enum E {
	Lit(u64),
	Imp(&'static str, Value),
	Add(Box<E>, Box<E>),
	Pick(Box<E>, Box<E>),
}
impl E {
	fn json(&self) -> Value {
		match self {
			E::Lit(n) => json!({"k":"lit","n":n}),
			E::Imp(kind, sp) => json!({"k":"imp","kind":kind,"sp":sp}),
			E::Add(a, b) => json!({"k":"add","a":a.json(),"b":b.json()}),
			E::Pick(a, b) => json!({"k":"pick","a":a.json(),"b":b.json()}),
		}
	}
	fn src(&self, root: &str) -> String {
		match self {
			E::Lit(n) => format!("{n}"),
			E::Imp("import", sp) => format!("(import \"{}\")", spelling_text(sp, root)),
			E::Imp("str", sp) => format!(
				"std.foldl(function(a, c) (a * 31 + std.codepoint(c)) % 65521, std.stringChars(importstr \"{}\"), 7)",
				spelling_text(sp, root)
			),
			E::Imp(_, sp) => format!(
				"std.foldl(function(a, c) (a * 31 + c) % 65521, importbin \"{}\", 7)",
				spelling_text(sp, root)
			),
			E::Add(a, b) => format!("({} + {})", a.src(root), b.src(root)),
			E::Pick(a, b) => format!("{{ u: {}, v: {} }}.u", a.src(root), b.src(root)),
		}
	}
}

fn sp(abs: bool, c: &[&str]) -> Value {
	let parts: Vec<&str> = c.iter().flat_map(|x| x.split('/')).collect();
	json!({"abs": abs, "c": parts})
}
fn imp(kind: &'static str, c: &[&str]) -> E {
	E::Imp(kind, sp(false, c))
}
fn add(a: E, b: E) -> E {
	E::Add(Box::new(a), Box::new(b))
}
fn pick(a: E, b: E) -> E {
	E::Pick(Box::new(a), Box::new(b))
}

struct Builder {
	root: String,
	nodes: Vec<Value>,
	have: Vec<Vec<String>>,
}
impl Builder {
	fn new(root: &str) -> Self {
		Self {
			root: root.to_owned(),
			nodes: Vec::new(),
			have: Vec::new(),
		}
	}
	fn taken(&mut self, p: &[&str]) -> bool {
		let v: Vec<String> = p.iter().map(|s| (*s).to_owned()).collect();
		if self.have.contains(&v) {
			return true;
		}
		self.have.push(v);
		false
	}
	fn dir(&mut self, p: &[&str]) {
		if !self.taken(p) {
			self.nodes.push(json!({"k":"dir","p":p}));
		}
	}
	fn code(&mut self, p: &[&str], e: &E) {
		if !self.taken(p) {
			let text = e.src(&self.root);
			self.nodes.push(
				json!({"k":"file","p":p,"bytes":text.as_bytes(),"code":e.json(),"_text":text}),
			);
		}
	}
	/// raw bytes; `code`: "syntax" (does not parse) or a literal number the text parses to
	fn raw(&mut self, p: &[&str], bytes: &[u8], code: Value) {
		if !self.taken(p) {
			self.nodes.push(json!({"k":"file","p":p,"bytes":bytes,"code":code}));
		}
	}
	fn link(&mut self, p: &[&str], to: &[&str]) {
		if !self.taken(p) {
			self.nodes.push(json!({"k":"link","p":p,"to":to}));
		}
	}
}

fn op(kind: &str, s: Value) -> Value {
	json!({"kind": kind, "sp": s, "fault": null})
}
fn op_fault(kind: &str, s: Value, k: usize, mode: &str) -> Value {
	json!({"kind": kind, "sp": s, "fault": k, "fmode": mode})
}

fn scenario(b: Builder, from: &[&str], jpaths: &[&[&str]], ops: Vec<Value>, shape: &str) -> Value {
	let size = b.nodes.len() + 2 * ops.len()
		+ b.nodes.iter().map(|n| n["bytes"].as_array().map_or(0, Vec::len) / 40).sum::<usize>();
	json!({"fs": b.nodes, "from": from, "jpaths": jpaths, "ops": ops, "_shape": shape, "size": size})
}

const UTF8_TEXT: &str = "h\u{e9}\u{3bb}\u{2713} \u{1F600}\n";
const BAD_UTF8: &[u8] = &[0x61, 0xff, 0xfe, 0x00, 0x80, 0x62];

/// the standard directory skeleton
fn skeleton(b: &mut Builder) {
	b.dir(&["d"]);
	b.dir(&["d", "sub"]);
	b.dir(&["J1"]);
	b.dir(&["J2"]);
	b.dir(&["E1"]);
}

/// hand-written shapes (each returned with the number of resolver calls of its first operation
/// so that a fault can be placed at every step)
fn systematic(root: &str) -> Vec<Value> {
	let mut out = Vec::new();
	let jp: &[&[&str]] = &[&["J2"], &["J1"], &["E1"]];
	let mut push = |name: &str, build: &dyn Fn(&mut Builder), ops: Vec<Value>| {
		let mut b = Builder::new(root);
		skeleton(&mut b);
		build(&mut b);
		out.push(scenario(b, &["d"], jp, ops, name));
	};
	let a = || sp(false, &["a.j"]);
	// tree
	let tree = |b: &mut Builder| {
		b.code(&["d", "a.j"], &add(imp("import", &["b.j"]), imp("import", &["c.j"])));
		b.code(&["d", "b.j"], &E::Lit(2));
		b.code(&["d", "c.j"], &add(E::Lit(3), imp("import", &["b.j"])));
		b.code(&["d", "z.j"], &E::Lit(9));
	};
	push("tree", &tree, vec![op("import", a()), op("import", a()), op("import", sp(false, &["c.j"]))]);
	// diamond, e reached over three spellings and a symlink
	let diamond = |b: &mut Builder| {
		b.code(&["d", "a.j"], &add(imp("import", &["b.j"]), imp("import", &["./c.j"])));
		b.code(&["d", "b.j"], &add(E::Lit(1), imp("import", &["../d/e.j"])));
		b.code(&["d", "c.j"], &add(imp("import", &["se.j"]), imp("import", &["sub/../e.j"])));
		b.code(&["d", "e.j"], &add(E::Lit(5), imp("str", &["t.txt"])));
		b.raw(&["d", "t.txt"], UTF8_TEXT.as_bytes(), json!("syntax"));
		b.link(&["d", "se.j"], &["d", "e.j"]);
		b.code(&["d", "z.j"], &E::Lit(9));
	};
	push(
		"diamond",
		&diamond,
		vec![op("import", a()), op("str", sp(false, &["e.j"])), op("bin", sp(false, &["se.j"])), op("import", sp(false, &["e.j"]))],
	);
	// cycles
	let selfc = |b: &mut Builder| {
		b.code(&["d", "a.j"], &add(E::Lit(1), imp("import", &["./a.j"])));
		b.code(&["d", "z.j"], &E::Lit(9));
	};
	push("self-cycle", &selfc, vec![op("import", a()), op("import", a()), op("import", sp(false, &["z.j"])), op("str", a())]);
	let two = |b: &mut Builder| {
		b.code(&["d", "a.j"], &add(E::Lit(1), imp("import", &["b.j"])));
		b.code(&["d", "b.j"], &add(imp("import", &["sa.j"]), E::Lit(1)));
		b.link(&["d", "sa.j"], &["d", "a.j"]);
		b.code(&["d", "z.j"], &E::Lit(9));
	};
	push("2-cycle", &two, vec![op("import", a()), op("import", sp(false, &["b.j"])), op("import", sp(false, &["z.j"]))]);
	let three = |b: &mut Builder| {
		b.code(&["d", "a.j"], &imp("import", &["b.j"]));
		b.code(&["J1", "b.j"], &imp("import", &["c.j"]));
		b.code(&["J2", "c.j"], &add(E::Lit(1), E::Imp("import", sp(true, &["d", "a.j"]))));
		b.code(&["d", "z.j"], &E::Lit(9));
	};
	push("3-cycle", &three, vec![op("import", a()), op("import", sp(false, &["c.j"])), op("import", sp(false, &["z.j"]))]);
	// lazy cycles: the cyclic import sits in a field that is never forced
	let lazy = |b: &mut Builder| {
		b.code(&["d", "a.j"], &pick(add(E::Lit(1), imp("import", &["b.j"])), imp("import", &["a.j"])));
		b.code(&["d", "b.j"], &pick(E::Lit(4), add(imp("import", &["a.j"]), imp("import", &["nowhere.j"]))));
		b.code(&["d", "z.j"], &E::Lit(9));
	};
	push("lazy-cycle", &lazy, vec![op("import", a()), op("import", sp(false, &["b.j"])), op("import", a())]);
	// shadowing: importer dir > J2 > J1 > E1 (jpaths are given in final priority order)
	for (i, placed) in [
		&["d", "J2", "J1", "E1"][..],
		&["J2", "J1", "E1"][..],
		&["J1", "E1"][..],
		&["E1"][..],
		&[][..],
		&["J1", "J2"][..],
		&["E1", "J2"][..],
	]
	.iter()
	.enumerate()
	{
		for kind in ["import", "str", "bin"] {
			let shadow = |b: &mut Builder| {
				for (n, dir) in ["d", "J2", "J1", "E1"].iter().enumerate() {
					if placed.contains(dir) {
						b.code(&[dir, "n.j"], &E::Lit(10 + n as u64));
					}
				}
				b.code(&["d", "a.j"], &add(E::Lit(100), imp(kind, &["n.j"])));
				b.code(&["J1", "m.j"], &add(E::Lit(200), imp(kind, &["n.j"])));
			};
			push(
				&format!("shadow-{i}-{kind}"),
				&shadow,
				vec![op(kind, sp(false, &["n.j"])), op("import", a()), op("import", sp(false, &["m.j"]))],
			);
		}
	}
	// spellings and bad targets
	let spell = |b: &mut Builder| {
		b.code(&["d", "a.j"], &E::Lit(1));
		b.code(&["d", "sub", "a.j"], &E::Lit(2));
		b.code(&["J1", "a.j"], &E::Lit(3));
		b.code(&["J1", "only.j"], &E::Lit(4));
		b.link(&["d", "sa.j"], &["J1", "a.j"]);
		b.link(&["d", "dangling.j"], &["J1", "nothing.j"]);
		b.link(&["d", "ld"], &["J1"]);
		b.link(&["J1", "dangling.j"], &["d", "a.j"]);
		b.raw(&["d", "x.bin"], BAD_UTF8, json!("syntax"));
		b.raw(&["d", "t.txt"], UTF8_TEXT.as_bytes(), json!("syntax"));
		b.raw(&["d", "bad.j"], b"{{{", json!("syntax"));
		b.raw(&["d", "num.j"], b"42", json!(42));
		b.raw(&["d", "empty.j"], b"", json!("syntax"));
		b.dir(&["J2", "dirt.j"]);
		b.code(&["J1", "dirt.j"], &E::Lit(6));
		b.code(&["J1", "x"], &E::Lit(8));
		b.dir(&["J1", "a.j.d"]);
	};
	let spellings: Vec<Value> = vec![
		sp(false, &["a.j"]),
		sp(false, &[".", "a.j"]),
		sp(false, &["..", "d", "a.j"]),
		sp(false, &["sub", "a.j"]),
		sp(false, &["sub", "..", "a.j"]),
		sp(false, &["sa.j"]),
		sp(true, &["J1", "a.j"]),
		sp(true, &["nowhere", "a.j"]),
		sp(false, &["only.j"]),
		sp(false, &["..", "J1", "only.j"]),
		sp(false, &["ld", "a.j"]),
		sp(false, &["ld", "..", "d", "a.j"]),
		sp(false, &["dangling.j"]),
		sp(false, &["missing.j"]),
		sp(false, &["nosuchdir", "..", "a.j"]),
		sp(false, &["a.j", "x"]),
		sp(false, &["a.j", "..", "a.j"]),
		sp(false, &["sub"]),
		sp(false, &["dirt.j"]),
		sp(false, &["."]),
		sp(false, &["x.bin"]),
		sp(false, &["t.txt"]),
		sp(false, &["bad.j"]),
		sp(false, &["num.j"]),
		sp(false, &["empty.j"]),
	];
	for (i, s) in spellings.iter().enumerate() {
		for order in [["import", "str", "bin"], ["bin", "import", "str"], ["str", "bin", "import"]] {
			push(
				&format!("spelling-{i}"),
				&spell,
				order.iter().map(|k| op(k, s.clone())).collect(),
			);
		}
	}
	// a fault at every resolver step of the diamond and of the 3-cycle, then retry, then others
	for k in 1..=12 {
		for mode in ["fail", "vanish"] {
			push(
				&format!("fault-diamond-{k}-{mode}"),
				&diamond,
				vec![
					op_fault("import", a(), k, mode),
					op("import", sp(false, &["z.j"])),
					op("import", a()),
					op_fault("import", a(), 1, mode),
					op_fault("str", sp(false, &["t.txt"]), k.min(2), mode),
					op("bin", sp(false, &["t.txt"])),
				],
			);
			push(
				&format!("fault-tree-{k}-{mode}"),
				&tree,
				vec![op_fault("import", a(), k, mode), op("import", a()), op("import", sp(false, &["z.j"]))],
			);
		}
		push(
			&format!("fault-3cycle-{k}"),
			&three,
			vec![op_fault("import", a(), k, "fail"), op("import", sp(false, &["z.j"])), op("import", a())],
		);
	}
	out
}

const DIRS: &[&[&str]] = &[&["d"], &["d", "sub"], &["J1"], &["J2"], &["E1"]];
const NAMES: &[&str] = &["a.j", "b.j", "c.j", "e.j"];
const DATA: &[&str] = &["t.txt", "x.bin", "bad.j", "num.j"];

fn rand_spelling(r: &mut Rng, home: &[&str], name: &'static str) -> Value {
	match r.below(22) {
		16..=21 => sp(false, &[name]),
		0..=5 => sp(false, &[name]),
		6 => sp(false, &[".", name]),
		7 => {
			if home.len() == 1 {
				sp(false, &["..", home[0], name])
			} else {
				sp(false, &["..", name])
			}
		}
		8 => sp(false, &["sub", "..", name]),
		9 => {
			let l: &'static str = match name {
				"a.j" => "sa.j",
				"b.j" => "sb.j",
				"c.j" => "sc.j",
				"e.j" => "se.j",
				_ => "st.txt",
			};
			sp(false, &[l])
		}
		10 | 11 => {
			let d = *r.pick(DIRS);
			let mut c: Vec<&str> = d.to_vec();
			c.push(name);
			sp(true, &c)
		}
		12 => sp(false, &["sub", name]),
		13 => sp(false, &["ld", name]),
		14 => sp(false, &[name, "x"]),
		_ => sp(false, &[*r.pick(&["sub", "missing.j", "..", "dangling.j", "J1"])]),
	}
}

fn rand_expr(r: &mut Rng, depth: usize, home: &[&str], nn: usize) -> E {
	let leaf = depth == 0 || r.chance(1, 3);
	if leaf {
		if r.chance(1, 4) {
			return E::Lit(r.below(9) as u64 + 1);
		}
		let kind = *r.pick(&["import", "import", "import", "str", "bin"]);
		let name: &'static str = if r.chance(1, 8) { *r.pick(DATA) } else { *r.pick(&NAMES[..nn]) };
		return E::Imp(kind, rand_spelling(r, home, name));
	}
	let a = rand_expr(r, depth - 1, home, nn);
	let b = rand_expr(r, depth - 1, home, nn);
	if r.chance(1, 3) {
		pick(a, b)
	} else {
		add(a, b)
	}
}

fn random_scenario(r: &mut Rng, root: &str) -> Value {
	let mut b = Builder::new(root);
	skeleton(&mut b);
	// links first (they take their names), targets may or may not exist
	for (l, n) in [("sa.j", "a.j"), ("sb.j", "b.j"), ("sc.j", "c.j"), ("se.j", "e.j"), ("st.txt", "t.txt")] {
		if r.chance(2, 3) {
			let d = *r.pick(DIRS);
			let mut to: Vec<&str> = d.to_vec();
			to.push(n);
			let host = *r.pick(&[&["d"][..], &["J1"][..], &["d", "sub"][..]]);
			let mut p: Vec<&str> = host.to_vec();
			p.push(l);
			b.link(&p, &to);
		}
	}
	if r.chance(1, 2) {
		b.link(&["d", "ld"], *r.pick(&[&["J1"][..], &["J2"][..], &["d", "sub"][..], &["nowhere"][..]]));
	}
	if r.chance(1, 3) {
		b.link(&["d", "dangling.j"], &["J2", "nothing"]);
	}
	// fewer files -> more interesting sharing; each name lives in 0..3 directories
	let n_names = 2 + r.below(3);
	for name in &NAMES[..n_names] {
		let copies = 1 + r.below(3);
		for _ in 0..copies {
			let d = if r.chance(1, 2) { &["d"][..] } else { *r.pick(DIRS) };
			let mut p: Vec<&str> = d.to_vec();
			p.push(name);
			let depth = r.below(3);
			let e = rand_expr(r, depth, d, n_names);
			b.code(&p, &e);
		}
	}
	for name in DATA {
		if r.chance(1, 2) {
			let d = *r.pick(DIRS);
			let mut p: Vec<&str> = d.to_vec();
			p.push(name);
			match *name {
				"t.txt" => b.raw(&p, UTF8_TEXT.as_bytes(), json!("syntax")),
				"x.bin" => b.raw(&p, BAD_UTF8, json!("syntax")),
				"bad.j" => b.raw(&p, b"local x = ; x", json!("syntax")),
				_ => {
					let n = r.below(90) + 10;
					b.raw(&p, format!("{n}").as_bytes(), json!(n));
				}
			}
		}
	}
	let from: &[&str] = if r.chance(1, 5) { &["d", "sub"] } else { &["d"] };
	let all_j: &[&[&str]] = &[&["J1"], &["J2"], &["E1"], &["J1"], &["J2"], &["JX"], &["d", "sub"], &["d"]];
	let nj = 1 + r.below(4);
	let mut jpaths: Vec<&[&str]> = Vec::new();
	for _ in 0..nj {
		jpaths.push(*r.pick(all_j));
	}
	let nops = 2 + r.below(4);
	let mut ops = Vec::new();
	for _ in 0..nops {
		let kind = *r.pick(&["import", "import", "import", "str", "bin"]);
		let name: &'static str = if r.chance(1, 6) { *r.pick(DATA) } else { *r.pick(&NAMES[..n_names]) };
		let s = rand_spelling(r, from, name);
		if r.chance(1, 4) {
			let mode = if r.chance(1, 3) { "vanish" } else { "fail" };
			ops.push(op_fault(kind, s, 1 + r.below(8), mode));
		} else {
			ops.push(op(kind, s));
		}
	}
	scenario(b, from, &jpaths, ops, "random")
}

// ------------------------------------------------------------------------------------------
// engines
// ------------------------------------------------------------------------------------------

fn emit(w: &mut CaseWriter, sc: &Value, root: &Path, hist: &mut BTreeMap<String, usize>) {
	let results = run_scenario(sc, root);
	let mut full = sc.clone();
	full["op"] = json!("import.replay");
	let res: Vec<Value> = results
		.iter()
		.map(|(o, l)| json!({"out": o, "log": l}))
		.collect();
	w.case(full, json!({"res": res}));
	let mut outs = sc.clone();
	outs["op"] = json!("import.outcomes");
	let empty = Vec::new();
	let ops = sc["ops"].as_array().unwrap_or(&empty);
	let res: Vec<Value> = results
		.iter()
		.zip(ops)
		.map(|((o, _), op)| if op["fault"].is_null() { o.clone() } else { json!({"faulted": true, "_out": o}) })
		.collect();
	w.case(outs, json!({"res": res, "once": once_only(&results)}));
	for (o, l) in &results {
		let k = if let Some(e) = o["err"].as_str() {
			format!("err:{e}")
		} else if o["panic"].is_string() {
			"panic".to_owned()
		} else {
			"value".to_owned()
		};
		*hist.entry(format!("outcome {k}")).or_default() += 1;
		*hist.entry(format!("log-len {}", l.len().min(12))).or_default() += 1;
	}
	*hist
		.entry(format!("shape {}", sc["_shape"].as_str().unwrap_or("?").split('-').next().unwrap_or("?")))
		.or_default() += 1;
}

fn sandbox_root(opts: &Opts) -> PathBuf {
	fs::create_dir_all(&opts.out).expect("mkdir out");
	let base = fs::canonicalize(&opts.out).expect("canonicalize out dir");
	base.join("sandbox")
}

fn run_inproc(opts: &Opts) {
	let root = sandbox_root(opts);
	let root_s = root.to_string_lossy().into_owned();
	let mut w = CaseWriter::new(&opts.out);
	let mut hist = BTreeMap::new();
	if let Some(rp) = &opts.replay {
		let v: Value = serde_json::from_str(&fs::read_to_string(rp).expect("replay file")).expect("replay json");
		let sc = if v["op"].is_object() { v["op"].clone() } else { v };
		emit(&mut w, &sc, &root, &mut hist);
	} else {
		for sc in systematic(&root_s) {
			emit(&mut w, &sc, &root, &mut hist);
		}
		let mut r = Rng::new(opts.seed);
		let n = if opts.thorough() { 30000 } else { 2000 };
		for _ in 0..n {
			let sc = random_scenario(&mut r, &root_s);
			emit(&mut w, &sc, &root, &mut hist);
		}
	}
	let _ = fs::remove_dir_all(&root);
	let n = w.n;
	w.finish(
		json!({"engine":"c07","cases":n,"histogram":hist,
			"rule":"hand-written import graphs (tree, diamond, self/2/3-cycle, lazy cycle, shadowing over importer dir/J2/J1/E1 x kind, 25 spellings x 3 kind orders, a fault at each of 12 resolver steps x {injected failure, file vanishes before load}) + seeded random layouts (<=4 code names x <=3 copies over 5 directories, symlinks to files and directories, dangling links, data files valid/invalid UTF-8/syntax error) with 2-5 operations on ONE real State through a recording wrapper around the real FileImportResolver"}),
		&opts.out,
	);
}

/// `jrsonnet -J .. -J .. main` with JSONNET_PATH: outcome only
fn run_cli(opts: &Opts) {
	let root = sandbox_root(opts);
	let root_s = root.to_string_lossy().into_owned();
	let mut w = CaseWriter::new(&opts.out);
	let bin = std::env::var("VERIF_BIN_DIR").map(|d| PathBuf::from(d).join("jrsonnet"));
	let mut hist: BTreeMap<String, usize> = BTreeMap::new();
	let Ok(bin) = bin else {
		w.finish(json!({"engine":"c07cli","cases":0,"rule":"VERIF_BIN_DIR unset"}), &opts.out);
		return;
	};
	let mut r = Rng::new(opts.seed ^ 0xC07);
	let n = if opts.thorough() { 400 } else { 80 };
	let pool: &[&str] = &["J1", "J2", "J3", "E1", "E2", "JX"];
	for i in 0..n {
		let mut b = Builder::new(&root_s);
		b.dir(&["d"]);
		for p in &pool[..5] {
			b.dir(&[p]);
		}
		let kind = *r.pick(&["import", "str", "bin"]);
		b.code(&["d", "main.j"], &add(E::Lit(1000), imp(kind, &["n.j"])));
		for (k, p) in pool[..5].iter().enumerate() {
			if r.chance(1, 2) {
				b.code(&[p, "n.j"], &E::Lit(10 + k as u64));
			}
		}
		if i % 7 == 0 {
			b.code(&["d", "n.j"], &E::Lit(7));
		}
		let nflags = r.below(4);
		let nenv = r.below(3);
		let jflags: Vec<&str> = (0..nflags).map(|_| *r.pick(pool)).collect();
		let env: Vec<&str> = (0..nenv).map(|_| *r.pick(pool)).collect();
		let sc = json!({"op":"import.cli","fs":b.nodes,"from":["d"],
			"jflags": jflags.iter().map(|j| vec![*j]).collect::<Vec<_>>(),
			"env": env.iter().map(|j| vec![*j]).collect::<Vec<_>>(),
			"ops":[{"kind":"import","sp":{"abs":false,"c":["main.j"]},"fault":null}],
			"size": 3 + nflags + nenv});
		materialise(&sc, &root);
		let mut cmd = Command::new(&bin);
		for j in &jflags {
			cmd.arg("-J").arg(root.join(j));
		}
		cmd.arg(root.join("d").join("main.j"));
		if nenv == 0 && r.chance(1, 2) {
			cmd.env_remove("JSONNET_PATH");
		} else {
			let joined = std::env::join_paths(env.iter().map(|e| root.join(e))).expect("join");
			cmd.env("JSONNET_PATH", joined);
		}
		let ans = match cmd.output() {
			Ok(o) if o.status.success() => {
				let t = String::from_utf8_lossy(&o.stdout).trim().to_owned();
				match t.parse::<u64>() {
					Ok(n) => json!({"res":[{"num": n}]}),
					Err(_) => json!({"res":[{"other": t}]}),
				}
			}
			Ok(o) => {
				let t = String::from_utf8_lossy(&o.stderr).into_owned();
				let c = if t.contains("can't resolve") { "notfound" } else { "other" };
				json!({"res":[{"err": c, "_msg": t}]})
			}
			Err(e) => json!({"res":[{"spawn": e.to_string()}]}),
		};
		*hist.entry(format!("flags {nflags} env {nenv}")).or_default() += 1;
		w.case(sc, ans);
	}
	let _ = fs::remove_dir_all(&root);
	let n = w.n;
	w.finish(
		json!({"engine":"c07cli","cases":n,"histogram":hist,
			"rule":"real jrsonnet binary, 0-3 -J flags and 0-2 JSONNET_PATH entries drawn (with repetition) from 5 directories + a missing one, the imported name present in a random subset"}),
		&opts.out,
	);
}

pub fn run(opts: &Opts) {
	if opts.engine == "c07cli" {
		run_cli(opts);
	} else {
		run_inproc(opts);
	}
}
