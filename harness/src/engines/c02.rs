//! C02 — object inheritance, late binding and visibility.
//! Object terms (literals, `+`, objectRemoveKey) are rendered to source, evaluated by the real
//! evaluator and observed through objectFields*/objectHas*/`in`/field reads/`"f" in super`/
//! `super.f` probes/manifestation; the layer vector is read through the `verif_core_shape` hook.
use jrsonnet_evaluator::{manifest::JsonFormat, Val};
use serde_json::{json, Value};

use crate::common::{guarded, new_state, CaseWriter, Opts, Rng};

#[derive(Clone, Debug)]
struct F {
	n: u32,
	add: bool,
	vis: u8, // 0 normal 1 hidden 2 unhide
	val: u32,
}

#[derive(Clone, Debug)]
enum T {
	Lit(Vec<F>, Option<u32>, bool), // fields + optional probe id (field named p<id>, model name 100+id) + chain probe `q+::`
	Twice(Box<T>, Option<Box<T>>), // `local m = <t>; m + [mid +] m` : the SAME object value at two layers of one chain
	Add(Box<T>, Box<T>),
	Rm(Box<T>, u32),
}

const NAMES: [&str; 3] = ["a", "b", "c"];

fn name_of(n: u32) -> String {
	if n == 200 {
		"q".to_string()
	} else if n >= 100 {
		format!("p{:02}", n - 100)
	} else {
		NAMES[n as usize].to_string()
	}
}
fn id_of(s: &str) -> i64 {
	match s {
		"a" => 0,
		"b" => 1,
		"c" => 2,
		"q" => 200,
		_ => s.strip_prefix('p').and_then(|x| x.parse::<i64>().ok()).map_or(-1, |x| 100 + x),
	}
}

impl T {
	fn json(&self) -> Value {
		match self {
			T::Lit(fs, probe, chain) => {
				let mut v: Vec<Value> = fs
					.iter()
					.map(|f| json!({"n":f.n,"add":f.add,"vis":(["n","h","u"][f.vis as usize]),"val":f.val}))
					.collect();
				if let Some(p) = probe {
					v.push(json!({"n":100+p,"add":false,"vis":"h","val":0}));
				}
				if *chain {
					v.push(json!({"n":200,"add":true,"vis":"h","val":0}));
				}
				json!({"k":"lit","fs":v})
			}
			T::Twice(m, mid) => match mid {
				None => json!({"k":"add","a":m.json(),"b":m.json()}),
				Some(x) => json!({"k":"add","a":{"k":"add","a":m.json(),"b":x.json()},"b":m.json()}),
			},
			T::Add(a, b) => json!({"k":"add","a":a.json(),"b":b.json()}),
			T::Rm(o, n) => json!({"k":"rm","o":o.json(),"ns":[n]}),
		}
	}
	fn src(&self, nnames: usize) -> String {
		match self {
			T::Lit(fs, probe, chain) => {
				let mut parts: Vec<String> = fs
					.iter()
					.map(|f| {
						format!(
							"{}{}{} [{}]",
							name_of(f.n),
							if f.add { "+" } else { "" },
							[":", "::", ":::"][f.vis as usize],
							f.val
						)
					})
					.collect();
				if let Some(p) = probe {
					let has: Vec<String> =
						(0..nnames).map(|i| format!("\"{}\" in super", NAMES[i])).collect();
					let get: Vec<String> = (0..nnames)
						.map(|i| format!("if \"{0}\" in super then super.{0} else null", NAMES[i]))
						.collect();
					parts.push(format!(
						"p{p:02}:: [[{}], [{}]]",
						has.join(", "),
						get.join(", ")
					));
				}
				if *chain {
					// the per-layer probe goes through an object-level local (bound once per (object, layer))
					let has: Vec<String> =
						(0..nnames).map(|i| format!("\"{}\" in super", NAMES[i])).collect();
					let get: Vec<String> = (0..nnames)
						.map(|i| format!("if \"{0}\" in super then super.{0} else null", NAMES[i]))
						.collect();
					parts.insert(0, format!("local ql = [[{}], [{}]]", has.join(", "), get.join(", ")));
					parts.push("q+:: [ql]".to_string());
				}
				format!("{{ {} }}", parts.join(", "))
			}
			T::Twice(m, mid) => match mid {
				None => format!("(local m = {}; m + m)", m.src(nnames)),
				Some(x) => format!("(local m = {}; m + ({}) + m)", m.src(nnames), x.src(nnames)),
			},
			T::Add(a, b) => format!("({}) + ({})", a.src(nnames), b.src(nnames)),
			T::Rm(o, n) => format!("std.objectRemoveKey({}, \"{}\")", o.src(nnames), name_of(*n)),
		}
	}
	fn size(&self) -> usize {
		match self {
			T::Lit(fs, p, c) => 1 + fs.len() + usize::from(p.is_some()) + usize::from(*c),
			T::Twice(m, mid) => 2 + 2 * m.size() + mid.as_ref().map_or(0, |x| x.size()),
			T::Add(a, b) => 1 + a.size() + b.size(),
			T::Rm(o, _) => 1 + o.size(),
		}
	}
	fn probes(&self, out: &mut Vec<u32>) {
		match self {
			T::Lit(_, Some(p), _) => out.push(*p),
			T::Lit(_, None, _) => {}
			T::Twice(m, mid) => {
				// the probe names of `m` occur twice; the read sees the top-most copy
				let mut inner = Vec::new();
				m.probes(&mut inner);
				if let Some(x) = mid {
					x.probes(&mut inner);
				}
				for p in inner {
					if !out.contains(&p) {
						out.push(p);
					}
				}
			}
			T::Add(a, b) => {
				a.probes(out);
				b.probes(out);
			}
			T::Rm(o, _) => o.probes(out),
		}
	}
	fn kinds(&self, h: &mut [usize; 8]) {
		match self {
			T::Twice(m, mid) => {
				h[7] += 1;
				m.kinds(h);
				if let Some(x) = mid {
					x.kinds(h);
				}
			}
			T::Lit(fs, _, _) => {
				h[0] += 1;
				for f in fs {
					if f.add {
						h[3] += 1;
					}
					h[4 + f.vis as usize] += 1;
				}
			}
			T::Add(a, b) => {
				h[1] += 1;
				a.kinds(h);
				b.kinds(h);
			}
			T::Rm(o, _) => {
				h[2] += 1;
				o.kinds(h);
			}
		}
	}
}

struct Gen {
	next_val: u32,
	next_probe: u32,
}
impl Gen {
	/// member option index 0 = absent, 1..=6 = (add, vis)
	fn lit_from(&mut self, opts: &[usize], probe: bool) -> T {
		let mut fs = Vec::new();
		for (n, o) in opts.iter().enumerate() {
			if *o == 0 {
				continue;
			}
			let k = o - 1;
			self.next_val += 1;
			fs.push(F { n: n as u32, add: k / 3 == 1, vis: (k % 3) as u8, val: self.next_val });
		}
		let p = if probe {
			self.next_probe += 1;
			Some(self.next_probe - 1)
		} else {
			None
		};
		T::Lit(fs, p, false)
	}
	fn random(&mut self, rng: &mut Rng, depth: usize, nnames: usize) -> T {
		if depth == 0 || rng.chance(1, 4) {
			let opts: Vec<usize> =
				(0..nnames).map(|_| if rng.chance(2, 5) { 0 } else { 1 + rng.below(6) }).collect();
			let mut l = self.lit_from(&opts, rng.chance(1, 2));
			if let T::Lit(_, _, c) = &mut l {
				*c = rng.chance(1, 2);
			}
			return l;
		}
		if rng.chance(1, 6) {
			// a mixin used twice in one chain
			let m = self.random(rng, depth - 1, nnames);
			let mid = if rng.chance(1, 2) { Some(Box::new(self.random(rng, depth - 1, nnames))) } else { None };
			return T::Twice(Box::new(m), mid);
		}
		if rng.chance(1, 4) {
			let o = self.random(rng, depth - 1, nnames);
			T::Rm(Box::new(o), rng.below(nnames) as u32)
		} else {
			let a = self.random(rng, depth - 1, nnames);
			let b = self.random(rng, depth - 1, nnames);
			T::Add(Box::new(a), Box::new(b))
		}
	}
}

#[cfg(jrsonnet_verif)]
fn shape_json(v: &Val) -> Value {
	use jrsonnet_evaluator::{VerifCoreShape, Visibility};
	let Val::Obj(o) = v else { return json!("not-an-object") };
	let cores = o.verif_core_shape();
	Value::Array(
		cores
			.into_iter()
			.map(|c| match c {
				VerifCoreShape::Oop(fs) => {
					let mut fs: Vec<(i64, bool, &str)> = fs
						.iter()
						.map(|(n, add, vis)| {
							(
								id_of(n.as_str()),
								*add,
								match vis {
									Visibility::Normal => "n",
									Visibility::Hidden => "h",
									Visibility::Unhide => "u",
								},
							)
						})
						.collect();
					fs.sort();
					json!({"k":"oop","fs":fs.iter().map(|f| json!([f.0,f.1,f.2])).collect::<Vec<_>>()})
				}
				VerifCoreShape::Omit(ns, prev) => {
					let mut ns: Vec<i64> = ns.iter().map(|n| id_of(n.as_str())).collect();
					ns.sort_unstable();
					json!({"k":"omit","ns":ns,"prev":prev})
				}
				VerifCoreShape::StandaloneSuper(i) => json!({"k":"standalone","sup":i}),
				VerifCoreShape::Other => json!({"k":"other"}),
			})
			.collect(),
	)
}
#[cfg(not(jrsonnet_verif))]
fn shape_json(_v: &Val) -> Value {
	json!("hook-disabled")
}

fn names_to_ids(v: &Value) -> Value {
	Value::Array(
		v.as_array()
			.map(|a| a.iter().map(|x| json!(id_of(x.as_str().unwrap_or("?")))).collect())
			.unwrap_or_default(),
	)
}

pub fn run(opts: &Opts) {
	if opts.engine == "c02a" {
		run_asserts(opts);
		return;
	}
	if opts.engine == "c02b" {
		run_assert_protocol(opts);
		return;
	}
	if opts.engine == "c02s" {
		run_standalone_super(opts);
		return;
	}
	let s = new_state();
	let _g = s.enter();
	let mut w = CaseWriter::new(&opts.out);
	let mut rng = Rng::new(opts.seed);
	let mut g = Gen { next_val: 0, next_probe: 0 };
	let mut terms: Vec<(T, usize)> = Vec::new();
	// exhaustive: all 2-layer chains over 2 names x 7 member kinds, plain and with the top or the
	// bottom or the whole wrapped in objectRemoveKey; probes on both layers
	for x in 0..49usize {
		for y in 0..49usize {
			g.next_val = 0;
			g.next_probe = 0;
			let a = g.lit_from(&[x % 7, x / 7], true);
			let b = g.lit_from(&[y % 7, y / 7], true);
			terms.push((T::Add(Box::new(a.clone()), Box::new(b.clone())), 2));
			if (x + y) % 5 == 0 {
				terms.push((T::Add(Box::new(T::Rm(Box::new(a.clone()), 0)), Box::new(b.clone())), 2));
				terms.push((T::Rm(Box::new(T::Add(Box::new(a.clone()), Box::new(b.clone()))), 1), 2));
				terms.push((T::Add(Box::new(a), Box::new(T::Rm(Box::new(b), 0))), 2));
			}
		}
	}
	// exhaustive: all 3-layer chains over 1 name, with a removal after layer 1, 2 or 3 and an
	// extra base below (masking must not reach below the object the key was removed from)
	for x in 0..7usize {
		for y in 0..7usize {
			for z in 0..7usize {
				g.next_val = 0;
				g.next_probe = 0;
				let base = g.lit_from(&[1], false);
				let a = g.lit_from(&[x], true);
				let b = g.lit_from(&[y], true);
				let c = g.lit_from(&[z], true);
				let ab = T::Add(Box::new(a.clone()), Box::new(b.clone()));
				terms.push((T::Add(Box::new(ab.clone()), Box::new(c.clone())), 1));
				terms.push((
					T::Add(
						Box::new(base.clone()),
						Box::new(T::Add(Box::new(T::Rm(Box::new(ab.clone()), 0)), Box::new(c.clone()))),
					),
					1,
				));
				terms.push((
					T::Add(
						Box::new(T::Add(Box::new(base.clone()), Box::new(T::Rm(Box::new(a.clone()), 0)))),
						Box::new(T::Add(Box::new(b.clone()), Box::new(c.clone()))),
					),
					1,
				));
				terms.push((
					T::Add(
						Box::new(base),
						Box::new(T::Rm(Box::new(T::Add(Box::new(ab), Box::new(c))), 0)),
					),
					1,
				));
			}
		}
	}
	let n_enum = terms.len();
	let n_rand = if opts.thorough() { 60000 } else { 5000 };
	for _ in 0..n_rand {
		g.next_val = 0;
		g.next_probe = 0;
		let depth = 1 + rng.below(if opts.thorough() { 5 } else { 4 });
		terms.push((g.random(&mut rng, depth, 3), 3));
	}
	let mut hist = [0usize; 8];
	for (t, nnames) in &terms {
		t.kinds(&mut hist);
		let tj = t.json();
		let src = t.src(*nnames);
		let mut probes = Vec::new();
		t.probes(&mut probes);
		let names: Vec<u32> = (0..*nnames as u32).collect();
		let per: Vec<String> = names
			.iter()
			.map(|n| {
				let nm = name_of(*n);
				format!("{{ has: std.objectHas(o, \"{nm}\"), hasAll: std.objectHasAll(o, \"{nm}\"), inn: \"{nm}\" in o, get: if std.objectHasAll(o, \"{nm}\") then o.{nm} else null }}")
			})
			.collect();
		let pr: Vec<String> = probes.iter().map(|p| format!("o.p{p:02}")).collect();
		let has_chain = src.contains("q+:: [ql]");
		let code = format!(
			"local o = {src}; {{ fields: std.objectFields(o), fieldsAll: std.objectFieldsAll(o), len: std.length(o), per: [{}], probes: [{}], chain: {}, vis: {{ [k]: o[k] for k in std.objectFields(o) }}, o: o, eqself: o == o }}",
			per.join(", "),
			pr.join(", "),
			if has_chain { "o.q" } else { "null" }
		);
		let probe_ids: Vec<u32> = probes.iter().map(|p| 100 + p).collect();
		// shape through the hook
		let shape = guarded(|| s.evaluate_snippet("<c02s>".to_owned(), src.clone()));
		let shape = match shape {
			Ok(Ok(v)) => shape_json(&v),
			Ok(Err(e)) => json!(format!("err:{}", e.error())),
			Err(_) => json!("panic"),
		};
		w.case(json!({"op":"obj.shape","t":tj,"src":src,"size":t.size()}), shape);
		let r = guarded(|| {
			s.evaluate_snippet("<c02>".to_owned(), code.clone())
				.and_then(|v| v.manifest(JsonFormat::minify()))
		});
		let ans = match r {
			Ok(Ok(text)) => {
				let v: Value = serde_json::from_str(&text).unwrap_or(json!(null));
				let per: Vec<Value> = v["per"]
					.as_array()
					.map(|a| {
						a.iter()
							.map(|p| {
								let ha = if p["inn"] == p["hasAll"] { p["hasAll"].clone() } else { json!("in!=objectHasAll") };
								json!({"has":p["has"],"hasAll":ha,"get":p["get"]})
							})
							.collect()
					})
					.unwrap_or_default();
				let consistent = v["vis"] == v["o"]
					&& v["eqself"] == json!(true)
					&& v["len"].as_f64() == v["fields"].as_array().map(|a| a.len() as f64);
				let mut ans = json!({
					"fields": names_to_ids(&v["fields"]),
					"fieldsAll": names_to_ids(&v["fieldsAll"]),
					"per": per,
					"chain": v["chain"].as_array().map(|a| a.iter().map(|p| json!({"has":p[0],"get":p[1]})).collect::<Vec<_>>()),
					"probes": v["probes"].as_array().map(|a| a.iter().map(|p| json!({"has":p[0],"get":p[1]})).collect::<Vec<_>>()).unwrap_or_default(),
				});
				if !consistent {
					ans["inconsistent"] = json!({"vis":v["vis"],"o":v["o"],"len":v["len"],"eqself":v["eqself"]});
				}
				ans
			}
			Ok(Err(e)) => json!({"err": format!("{}", e.error())}),
			Err(p) => json!({"panic": p}),
		};
		w.case(
			json!({"op":"obj.probe","t":tj,"src":src,"names":names,"probes":probe_ids,"chain":if has_chain { json!(200) } else { Value::Null },"size":t.size()}),
			ans,
		);
	}
	let meta = json!({
		"engine":"c02","cases":w.n,"enumerated_terms":n_enum,"random_terms":n_rand,
		"constructor_hist":{"lit":hist[0],"add":hist[1],"rm":hist[2],"plus_fields":hist[3],"vis_normal":hist[4],"vis_hidden":hist[5],"vis_unhide":hist[6],"mixin_used_twice":hist[7]},
		"rule":"object terms over {literal with :,::,:::,+: members, a+b, objectRemoveKey}: all 2-layer chains over 2 names x 7 member kinds (+ removal variants), all 3-layer chains over 1 name with removals at each position above an extra base, seeded random terms to depth 4/5 over 3 names; observed via objectFields/All, objectHas/All, in, reads, per-layer `in super`/`super.f` probes, manifest, ==, std.length, and the layer vector via verif_core_shape"
	});
	w.finish(meta, &opts.out);
}

/// `c02a`: object-level assertions and object locals under inheritance, as sequences of
/// build / read / extend steps (an assertion of an inherited layer must be checked against the
/// FINAL object, also when the base was already read and passed its own assertions).  The
/// reference is the definitional interpreter (`eval.run`).
pub fn run_asserts(opts: &Opts) {
	use crate::astjson;
	use jrsonnet_ir::Source;
	let env = super::c01::new_env();
	let _g = env.state.enter();
	let mut w = CaseWriter::new(&opts.out);
	let mut rng = Rng::new(opts.seed ^ 0xA55E);
	let n = if opts.thorough() { 30000 } else { 3000 };
	let mut outcomes: std::collections::BTreeMap<String, usize> = std::collections::BTreeMap::new();
	let mut feats = [0usize; 6];
	for case in 0..n {
		let nobj = 2 + rng.below(3);
		let mut lets: Vec<String> = Vec::new();
		let mut reads: Vec<String> = Vec::new();
		let field = |rng: &mut Rng| -> String {
			let name = *rng.pick(&["x", "x", "y"]);
			let vis = *rng.pick(&[":", ":", "::", ":::"]);
			let plus = if rng.chance(1, 6) { "+" } else { "" };
			format!("{name}{plus}{vis} {}", rng.range(-2, 3))
		};
		let assertion = |rng: &mut Rng, has_super: bool| -> String {
			let subj = match rng.below(if has_super { 5 } else { 4 }) {
				0 => "self.x".to_string(),
				1 => "self.y".to_string(),
				2 => "std.length(self)".to_string(),
				3 => "$.x".to_string(),
				_ => "super.x".to_string(),
			};
			let op = *rng.pick(&[">", ">=", "<", "=="]);
			format!("assert {subj} {op} {} : \"a{}\"", rng.range(-1, 2), rng.below(9))
		};
		for k in 0..nobj {
			let lit = |rng: &mut Rng, has_super: bool, feats: &mut [usize; 6]| -> String {
				let mut parts: Vec<String> = Vec::new();
				if rng.chance(1, 3) {
					feats[0] += 1;
					// object-level local that depends on self / super
					let dep = if has_super && rng.chance(1, 2) { "super.x" } else { "self.x" };
					parts.push(format!("local l = {dep} + 1"));
					parts.push("z: l".to_string());
				}
				if rng.chance(1, 2) {
					feats[1] += 1;
					parts.push(assertion(rng, has_super));
				}
				let nf = 1 + rng.below(2);
				let mut seen: Vec<String> = Vec::new();
				for _ in 0..nf {
					let f = field(rng);
					let nm = f.split(|c| c == '+' || c == ':').next().unwrap_or("x").to_string();
					if !seen.contains(&nm) {
						seen.push(nm);
						parts.push(f);
					}
				}
				format!("{{ {} }}", parts.join(", "))
			};
			let def = if k == 0 {
				// the base always defines x and y so that the assertions are meaningful
				let a = if rng.chance(2, 3) { format!("{}, ", assertion(&mut rng, false)) } else { String::new() };
				format!("{{ {a}x: {}, y: {} }}", rng.range(-2, 3), rng.range(-2, 3))
			} else {
				let j = rng.below(k);
				match rng.below(5) {
					0 | 1 => {
						feats[2] += 1;
						format!("o{j} {}", lit(&mut rng, true, &mut feats))
					}
					2 => {
						feats[3] += 1;
						format!("o{j} + {}", lit(&mut rng, true, &mut feats))
					}
					3 => format!("{} + o{j}", lit(&mut rng, false, &mut feats)),
					_ => {
						feats[4] += 1;
						let i = rng.below(k);
						format!("o{j} + o{i}")
					}
				}
			};
			lets.push(format!("local o{k} = {def};"));
			// reads right after the definition (so the base is read BEFORE it is extended) …
			if rng.chance(1, 2) {
				feats[5] += 1;
				let what = *rng.pick(&["x", "y"]);
				lets.push(format!("local r{k} = std.objectHasAll(o{k}, \"{what}\") && (o{k}.{what} == o{k}.{what});"));
				reads.push(format!("r{k}"));
			}
		}
		// … and reads of every object at the end
		for k in 0..nobj {
			match rng.below(4) {
				0 => reads.push(format!("o{k}.x")),
				1 => reads.push(format!("std.length(o{k})")),
				2 => reads.push(format!("std.objectFields(o{k})")),
				_ => reads.push(format!("o{k}")),
			}
		}
		// the order in which the reads are forced is the manifestation order of the array
		let src = format!("{} [{}]", lets.join(" "), reads.join(", "));
		let source = Source::new_virtual("<c02a>".into(), src.as_str().into());
		let ast = match jrsonnet_ir_parser::parse(&src, &jrsonnet_ir_parser::ParserSettings { source }) {
			Ok(e) => astjson::expr(&e),
			Err(_) => json!(["unsupported", "syntax error"]),
		};
		let ans = super::c01::run_program(&env, |s| s.evaluate_snippet("<c02a>".to_owned(), src.clone()));
		let key = ans
			.get("err")
			.and_then(Value::as_str)
			.map_or_else(|| if ans.get("ok").is_some() { "value".to_string() } else { "other".to_string() }, |c| format!("err:{c}"));
		*outcomes.entry(key).or_default() += 1;
		w.case(json!({"op":"eval.run","src":src,"ast":ast,"fuel":400,"size":src.len(),"case":case}), ans);
	}
	let meta = json!({
		"engine":"c02a","cases":w.n,"outcome_hist":outcomes,
		"feature_hist":{"object_locals":feats[0],"layer_asserts":feats[1],"brace_extend":feats[2],"plus_literal":feats[3],"plus_objects":feats[4],"read_before_extend":feats[5]},
		"rule":"2-4 objects built step by step (base literal with assertion over self/$ ; later ones by `o {..}`, `o + {..}`, `{..} + o`, `o + o'` with own assertions over self/super/$ and object locals depending on self/super), reads interleaved so that a base is read before it is extended; outcome (array of reads or assertion error) vs the definitional interpreter"
	});
	w.finish(meta, &opts.out);
}

// ---------------------------------------------------------------------------------------------
// `c02b`: the builder's `has_assertions` flag and the `run_assertions` protocol against the Lean
// automaton (`obj.asserts`).  A program defines objects o0..ok step by step (literal, `o {..}`,
// `o + {..}`, `{..} + o`, `o + o'`, objectRemoveKey), layers may carry one assertion whose truth is
// decidable from the final object's field sets (objectHasAll/objectHas of self), or which
// manifests `self` (re-entrant read) or an EARLIER object (nested run of that object's
// assertions).  Objects are then forced in a given order; every object that passed stays in the
// history that is forced (in the same evaluation) before the next one, so that extended objects
// are built from bases whose assertions already ran.
// ---------------------------------------------------------------------------------------------

#[derive(Clone, Debug)]
enum Cond {
	True,
	HasAll(u32, bool),
	Has(u32, bool),
	ReadSelf,
	ReadOther(usize),
}

#[derive(Clone, Debug)]
struct ALit {
	fs: Vec<F>,
	asrt: Option<Cond>,
}

#[derive(Clone, Debug)]
enum Def {
	Lit(ALit),
	Ext(usize, ALit),
	AddLit(usize, ALit),
	LitAdd(ALit, usize),
	Add(usize, usize),
	Rm(usize, u32),
}

impl Cond {
	fn json(&self) -> Value {
		match self {
			Cond::True => json!({"c":"true"}),
			Cond::HasAll(n, neg) => json!({"c":"hasAll","n":n,"neg":neg}),
			Cond::Has(n, neg) => json!({"c":"has","n":n,"neg":neg}),
			Cond::ReadSelf => json!({"c":"self"}),
			Cond::ReadOther(j) => json!({"c":"other","j":j}),
		}
	}
	fn src(&self) -> String {
		match self {
			Cond::True => "true".to_string(),
			Cond::HasAll(n, neg) => {
				format!("{}std.objectHasAll(self, \"{}\")", if *neg { "!" } else { "" }, name_of(*n))
			}
			Cond::Has(n, neg) => {
				format!("{}std.objectHas(self, \"{}\")", if *neg { "!" } else { "" }, name_of(*n))
			}
			Cond::ReadSelf => "std.length(std.manifestJsonMinified(self)) > 0".to_string(),
			Cond::ReadOther(j) => format!("std.length(std.manifestJsonMinified(o{j})) > 0"),
		}
	}
}

impl ALit {
	fn json(&self) -> Value {
		let fs: Vec<Value> = self
			.fs
			.iter()
			.map(|f| json!({"n":f.n,"add":f.add,"vis":(["n","h","u"][f.vis as usize]),"val":f.val}))
			.collect();
		match &self.asrt {
			Some(c) => json!({"k":"lit","fs":fs,"as":true,"cond":c.json()}),
			None => json!({"k":"lit","fs":fs,"as":false}),
		}
	}
	fn src(&self, tag: usize) -> String {
		let mut parts: Vec<String> = Vec::new();
		if let Some(c) = &self.asrt {
			parts.push(format!("assert {} : \"a{tag}\"", c.src()));
		}
		for f in &self.fs {
			parts.push(format!(
				"{}{}{} [{}]",
				name_of(f.n),
				if f.add { "+" } else { "" },
				[":", "::", ":::"][f.vis as usize],
				f.val
			));
		}
		format!("{{ {} }}", parts.join(", "))
	}
}

fn def_term(defs: &[Def], k: usize) -> Value {
	match &defs[k] {
		Def::Lit(l) => l.json(),
		Def::Ext(j, l) => json!({"k":"add","ext":true,"a":def_term(defs, *j),"b":l.json()}),
		Def::AddLit(j, l) => json!({"k":"add","a":def_term(defs, *j),"b":l.json()}),
		Def::LitAdd(l, j) => json!({"k":"add","a":l.json(),"b":def_term(defs, *j)}),
		Def::Add(j, i) => json!({"k":"add","a":def_term(defs, *j),"b":def_term(defs, *i)}),
		Def::Rm(j, n) => json!({"k":"rm","o":def_term(defs, *j),"ns":[n]}),
	}
}

fn def_src(d: &Def, k: usize) -> String {
	match d {
		Def::Lit(l) => l.src(k),
		Def::Ext(j, l) => format!("o{j} {}", l.src(k)),
		Def::AddLit(j, l) => format!("o{j} + {}", l.src(k)),
		Def::LitAdd(l, j) => format!("{} + o{j}", l.src(k)),
		Def::Add(j, i) => format!("o{j} + o{i}"),
		Def::Rm(j, n) => format!("std.objectRemoveKey(o{j}, \"{}\")", name_of(*n)),
	}
}

pub fn run_assert_protocol(opts: &Opts) {
	let s = new_state();
	let _g = s.enter();
	let mut w = CaseWriter::new(&opts.out);
	let mut rng = Rng::new(opts.seed ^ 0xB0B);
	let n = if opts.thorough() { 12000 } else { 1200 };
	let mut hist_res: std::collections::BTreeMap<String, usize> = std::collections::BTreeMap::new();
	let mut feats = [0usize; 10];
	let mut val = 0u32;
	for case in 0..n {
		let nobj = 2 + rng.below(4);
		let mut defs: Vec<Def> = Vec::new();
		for k in 0..nobj {
			let mut lit = |rng: &mut Rng, feats: &mut [usize; 10]| -> ALit {
				let mut fs = Vec::new();
				for nn in 0..2u32 {
					if rng.chance(1, 2) {
						val += 1;
						fs.push(F { n: nn, add: rng.chance(1, 5), vis: rng.below(3) as u8, val });
					}
				}
				let asrt = if rng.chance(3, 5) {
					Some(match rng.below(if k > 0 { 8 } else { 7 }) {
						0 => Cond::True,
						1 | 2 => Cond::HasAll(rng.below(2) as u32, rng.chance(1, 3)),
						3 | 4 => Cond::Has(rng.below(2) as u32, rng.chance(1, 3)),
						5 | 6 => Cond::ReadSelf,
						_ => Cond::ReadOther(rng.below(k)),
					})
				} else {
					None
				};
				if asrt.is_some() {
					feats[0] += 1;
					if fs.is_empty() {
						feats[1] += 1; // assertion-only literal: commits a core without fields
					}
				}
				ALit { fs, asrt }
			};
			let d = if k == 0 {
				Def::Lit(lit(&mut rng, &mut feats))
			} else {
				let j = rng.below(k);
				match rng.below(8) {
					0 => Def::Lit(lit(&mut rng, &mut feats)),
					1 | 2 => {
						feats[2] += 1;
						Def::Ext(j, lit(&mut rng, &mut feats))
					}
					3 => {
						feats[3] += 1;
						Def::AddLit(j, lit(&mut rng, &mut feats))
					}
					4 => {
						feats[4] += 1;
						Def::LitAdd(lit(&mut rng, &mut feats), j)
					}
					5 => {
						feats[5] += 1;
						Def::Add(j, rng.below(k))
					}
					_ => {
						feats[6] += 1;
						Def::Rm(j, rng.below(2) as u32)
					}
				}
			};
			defs.push(d);
		}
		// order of forcing: mostly definition order (bases before their extensions), sometimes shuffled, with repeats
		let mut order: Vec<usize> = (0..nobj).collect();
		if rng.chance(1, 3) {
			for i in (1..order.len()).rev() {
				order.swap(i, rng.below(i + 1));
			}
			feats[7] += 1;
		}
		if rng.chance(1, 3) {
			let x = order[rng.below(order.len())];
			order.push(x);
			feats[8] += 1;
		}
		let lets: Vec<String> =
			defs.iter().enumerate().map(|(k, d)| format!("local o{k} = {};", def_src(d, k))).collect();
		let lets = lets.join(" ");
		let force = |k: usize| format!("std.length(std.manifestJsonMinified(o{k}))");
		let mut hist: Vec<usize> = Vec::new();
		let mut res: Vec<String> = Vec::new();
		for &x in &order {
			let mut reads: Vec<String> = hist.iter().map(|h| force(*h)).collect();
			reads.push(force(x));
			let code = format!("{lets} [{}]", reads.join(", "));
			let r = crate::common::eval_json(&s, &code);
			let out = if r.get("ok").is_some() {
				"pass".to_string()
			} else if let Some(c) = r.get("err").and_then(Value::as_str) {
				c.to_string()
			} else {
				"panic".to_string()
			};
			if out == "pass" {
				hist.push(x);
			}
			*hist_res.entry(out.clone()).or_default() += 1;
			res.push(out);
		}
		let shapes: Vec<Value> = (0..nobj)
			.map(|k| match guarded(|| s.evaluate_snippet("<c02b>".to_owned(), format!("{lets} o{k}"))) {
				Ok(Ok(v)) => shape_json(&v),
				Ok(Err(e)) => json!(format!("err:{}", e.error())),
				Err(_) => json!("panic"),
			})
			.collect();
		let objs: Vec<Value> = (0..nobj).map(|k| def_term(&defs, k)).collect();
		w.case(
			json!({"op":"obj.asserts","objs":objs,"order":order,"src":lets,"size":lets.len(),"case":case}),
			json!({"res":res,"shapes":shapes}),
		);
	}
	let meta = json!({
		"engine":"c02b","cases":w.n,"step_result_hist":hist_res,
		"feature_hist":{"assertions":feats[0],"assertion_only_literals":feats[1],"brace_extend":feats[2],"plus_literal":feats[3],"literal_plus":feats[4],"plus_objects":feats[5],"remove_key":feats[6],"shuffled_order":feats[7],"repeated_read":feats[8]},
		"rule":"2-5 objects built step by step (literal / o{..} / o+{..} / {..}+o / o+o' / objectRemoveKey), layers with an optional assertion over objectHasAll/objectHas of self, a re-entrant manifest of self, or a manifest of an earlier object; objects forced (manifested) in definition or shuffled order with repeats, passed ones kept in the forced history; per-step pass/assert and every object's layer vector vs the Lean builder + run_assertions automaton (model) and the term-level meaning (spec)"
	});
	w.finish(meta, &opts.out);
}

// ---------------------------------------------------------------------------------------------
// `c02s`: bare `super` as a value (StandaloneSuperCore).  `o = t1 + { p00:: super } + t2`, then
// `x = [under +] o.p00 [+ over]`, optionally wrapped in objectRemoveKey; observed like `c02`
// (field listings, objectHas/All, `in`, reads, manifest, ==, length) plus the layer vector.
// ---------------------------------------------------------------------------------------------

fn ncores(t: &T) -> usize {
	match t {
		T::Lit(fs, p, c) => usize::from(!fs.is_empty() || p.is_some() || *c),
		T::Twice(m, mid) => 2 * ncores(m) + mid.as_ref().map_or(0, |x| ncores(x)),
		T::Add(a, b) => ncores(a) + ncores(b),
		T::Rm(o, _) => ncores(o) + 1,
	}
}

fn rand_plain(g: &mut Gen, rng: &mut Rng, depth: usize, nnames: usize) -> T {
	if depth == 0 || rng.chance(1, 3) {
		let opts: Vec<usize> =
			(0..nnames).map(|_| if rng.chance(2, 5) { 0 } else { 1 + rng.below(6) }).collect();
		return g.lit_from(&opts, false);
	}
	if rng.chance(1, 3) {
		let o = rand_plain(g, rng, depth - 1, nnames);
		T::Rm(Box::new(o), rng.below(nnames) as u32)
	} else {
		let a = rand_plain(g, rng, depth - 1, nnames);
		let b = rand_plain(g, rng, depth - 1, nnames);
		T::Add(Box::new(a), Box::new(b))
	}
}

pub fn run_standalone_super(opts: &Opts) {
	let s = new_state();
	let _g = s.enter();
	let mut w = CaseWriter::new(&opts.out);
	let mut rng = Rng::new(opts.seed ^ 0x5EED);
	let mut g = Gen { next_val: 0, next_probe: 0 };
	let n = if opts.thorough() { 30000 } else { 2500 };
	let nnames = 2usize;
	let mut forms = [0usize; 6];
	let mut inner_rm = 0usize;
	for case in 0..n {
		g.next_val = 0;
		g.next_probe = 0;
		let d1 = 1 + rng.below(2);
		let t1 = rand_plain(&mut g, &mut rng, d1, nnames);
		let t2 = if rng.chance(1, 3) { Some(rand_plain(&mut g, &mut rng, 1, nnames)) } else { None };
		let mid_json = json!({"k":"lit","fs":[{"n":100,"add":false,"vis":"h","val":0}]});
		let l = ncores(&t1);
		let mut full_json = json!({"k":"add","a":t1.json(),"b":mid_json});
		let mut o_src = format!("({}) + {{ p00:: super }}", t1.src(nnames));
		if let Some(t2) = &t2 {
			full_json = json!({"k":"add","a":full_json,"b":t2.json()});
			o_src = format!("{o_src} + ({})", t2.src(nnames));
		}
		if o_src.contains("objectRemoveKey") {
			inner_rm += 1;
		}
		let sup_json = json!({"k":"sup","t":full_json,"l":l});
		let form = rng.below(6);
		forms[form] += 1;
		let under = rand_plain(&mut g, &mut rng, 1, nnames);
		let over = rand_plain(&mut g, &mut rng, 1, nnames);
		let base = |t: &T| json!({"k":"base","t":t.json()});
		let (xj, xsrc) = match form {
			0 => (sup_json.clone(), "o.p00".to_string()),
			1 => (json!({"k":"add","a":base(&under),"b":sup_json}), format!("({}) + o.p00", under.src(nnames))),
			2 => (json!({"k":"add","a":sup_json,"b":base(&over)}), format!("o.p00 + ({})", over.src(nnames))),
			3 => (
				json!({"k":"add","a":{"k":"add","a":base(&under),"b":sup_json},"b":base(&over)}),
				format!("({}) + o.p00 + ({})", under.src(nnames), over.src(nnames)),
			),
			4 => {
				let k = rng.below(nnames) as u32;
				(
					json!({"k":"add","a":{"k":"rm","o":{"k":"add","a":base(&under),"b":sup_json},"ns":[k]},"b":base(&over)}),
					format!(
						"std.objectRemoveKey(({}) + o.p00, \"{}\") + ({})",
						under.src(nnames),
						name_of(k),
						over.src(nnames)
					),
				)
			}
			_ => {
				let k = rng.below(nnames) as u32;
				(
					json!({"k":"add","a":base(&under),"b":{"k":"rm","o":sup_json,"ns":[k]}}),
					format!("({}) + std.objectRemoveKey(o.p00, \"{}\")", under.src(nnames), name_of(k)),
				)
			}
		};
		let names: Vec<u32> = (0..nnames as u32).collect();
		let per: Vec<String> = names
			.iter()
			.map(|n| {
				let nm = name_of(*n);
				format!("{{ has: std.objectHas(x, \"{nm}\"), hasAll: std.objectHasAll(x, \"{nm}\"), inn: \"{nm}\" in x, get: if std.objectHasAll(x, \"{nm}\") then x.{nm} else null }}")
			})
			.collect();
		let pre = format!("local o = {o_src}; local x = {xsrc};");
		let code = format!(
			"{pre} {{ fields: std.objectFields(x), fieldsAll: std.objectFieldsAll(x), len: std.length(x), per: [{}], vis: {{ [k]: x[k] for k in std.objectFields(x) }}, x: x, eqself: x == x }}",
			per.join(", ")
		);
		let shape = match guarded(|| s.evaluate_snippet("<c02s>".to_owned(), format!("{pre} x"))) {
			Ok(Ok(v)) => shape_json(&v),
			Ok(Err(e)) => json!(format!("err:{}", e.error())),
			Err(_) => json!("panic"),
		};
		let r = guarded(|| {
			s.evaluate_snippet("<c02s>".to_owned(), code.clone())
				.and_then(|v| v.manifest(JsonFormat::minify()))
		});
		let ans = match r {
			Ok(Ok(text)) => {
				let v: Value = serde_json::from_str(&text).unwrap_or(json!(null));
				let per: Vec<Value> = v["per"]
					.as_array()
					.map(|a| {
						a.iter()
							.map(|p| {
								let ha = if p["inn"] == p["hasAll"] { p["hasAll"].clone() } else { json!("in!=objectHasAll") };
								json!({"has":p["has"],"hasAll":ha,"get":p["get"]})
							})
							.collect()
					})
					.unwrap_or_default();
				let consistent = v["vis"] == v["x"]
					&& v["eqself"] == json!(true)
					&& v["len"].as_f64() == v["fields"].as_array().map(|a| a.len() as f64);
				let keep = |v: &Value| -> Value {
					Value::Array(
						names_to_ids(v)
							.as_array()
							.map(|a| a.iter().filter(|x| x.as_i64().is_some_and(|i| (0..nnames as i64).contains(&i))).cloned().collect())
							.unwrap_or_default(),
					)
				};
				let mut ans = json!({"fields": keep(&v["fields"]), "fieldsAll": keep(&v["fieldsAll"]), "per": per, "shape": shape});
				if !consistent {
					ans["inconsistent"] = json!({"vis":v["vis"],"x":v["x"],"len":v["len"],"eqself":v["eqself"]});
				}
				ans
			}
			Ok(Err(e)) => {
				if matches!(e.error(), jrsonnet_evaluator::error::ErrorKind::NoSuperFound) {
					json!({"err": "nosuper"})
				} else {
					json!({"err": crate::common::err_class(&e), "_msg": format!("{}", e.error())})
				}
			}
			Err(p) => json!({"panic": p}),
		};
		w.case(
			json!({"op":"obj.super","x":xj,"names":names,"src":format!("{pre} x"),"size":pre.len(),"case":case}),
			ans,
		);
	}
	let meta = json!({
		"engine":"c02s","cases":w.n,
		"form_hist":{"super_alone":forms[0],"under_plus_super":forms[1],"super_plus_over":forms[2],"under_super_over":forms[3],"removeKey_around":forms[4],"removeKey_of_super":forms[5]},
		"inner_has_removeKey":inner_rm,
		"rule":"o = t1 + { p00:: super } [+ t2] with random plain terms (literals with :,::,:::,+: members, +, objectRemoveKey) over 2 names; x = o.p00 alone / under + x / x + over / both / with objectRemoveKey around or directly on the super value; observed via objectFields/All, objectHas/All, in, reads, manifest, ==, std.length and the layer vector (verif_core_shape: StandaloneSuper(sup))"
	});
	w.finish(meta, &opts.out);
}
