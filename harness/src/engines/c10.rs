//! C10 — stdlib array / set / higher-order functions against their reference definitions.
//! Every case is one call `std.<fn>(args…)` evaluated from source text by the real evaluator with
//! the real stdlib; values are JSON (JSON text is jsonnet), function-valued arguments come from a
//! named pool whose jsonnet text is below and whose Lean twin is `fn1`/`fn2` in Model/StdArr.lean.
use std::collections::BTreeMap;

use jrsonnet_evaluator::{State, Val};
use serde_json::{json, Value};

use crate::common::{guarded, new_state, CaseWriter, Opts, Rng};

fn fn_text(name: &str) -> &'static str {
	match name {
		"id" => "function(x) x",
		"idw" => "function(x) [x][0]",
		"neg" => "function(x) 0 - x",
		"const0" => "function(x) 0",
		"mod2" => "function(x) if std.isNumber(x) then x % 2 else error 'e'",
		"len" => "function(x) std.length(x)",
		"fieldA" => "function(x) x.a",
		"failOnStr" => "function(x) if std.isString(x) then error 's' else x",
		"type" => "function(x) std.type(x)",
		"wrap" => "function(x) [x]",
		"isNum" => "function(x) std.isNumber(x)",
		"pos" => "function(x) x > 0",
		"eq1" => "function(x) x == 1",
		"true" => "function(x) true",
		"inc" => "function(x) x + 1",
		"dup" => "function(x) [x, x]",
		"numOrNull" => "function(x) if std.isNumber(x) then [x] else null",
		"cc" => "function(x) x + x",
		"skipA" => "function(x) if x == 'a' then null else x",
		"twice" => "function(x) x * 2",
		"lit" => "function(x) 'k'",
		"arr1" => "function(x) [1]",
		// binary
		"pair" => "function(a, b) [a, b]",
		"snoc" => "function(a, b) if std.isArray(a) then a + [b] else error 'e'",
		"cons" => "function(a, b) if std.isArray(b) then [a] + b else error 'e'",
		"add" => "function(a, b) if ((std.isNumber(a) || std.isString(a)) && (std.isNumber(b) || std.isString(b))) || (std.isArray(a) && std.isArray(b)) then a + b else error 'e'",
		"fst" => "function(a, b) a",
		"snd" => "function(a, b) b",
		"inc1" => "function(a, b) if std.isNumber(a) then a + 1 else error 'e'",
		"inc2" => "function(a, b) if std.isNumber(b) then b + 1 else error 'e'",
		"const7" => "function(a, b) 7",
		_ => panic!("unknown pool function {name}"),
	}
}

/// implementation value -> canonical JSON (`Err(())` = evaluating an element failed)
fn val_json(v: &Val) -> Result<Value, String> {
	Ok(match v {
		Val::Null => Value::Null,
		Val::Bool(b) => json!(b),
		Val::Num(n) => {
			let f = n.get();
			if f.fract() == 0.0 && f.abs() < 9.0e15 && !(f == 0.0 && f.is_sign_negative()) {
				json!(f as i64)
			} else {
				json!({"$f": format!("{:016x}", f.to_bits())})
			}
		}
		Val::Str(s) => json!(s.to_string()),
		Val::Arr(a) => {
			let mut out = Vec::with_capacity(a.len());
			for e in a.iter() {
				let e = e.map_err(|e| format!("{}", e.error()))?;
				out.push(val_json(&e)?);
			}
			Value::Array(out)
		}
		Val::Obj(o) => {
			let mut m = serde_json::Map::new();
			for k in o.fields(
				#[cfg(feature = "exp-preserve-order")]
				false,
			) {
				let fv = o
					.get(k.clone())
					.map_err(|e| format!("{}", e.error()))?
					.ok_or_else(|| "missing field".to_string())?;
				m.insert(k.to_string(), val_json(&fv)?);
			}
			Value::Object(m)
		}
		Val::Func(_) => json!({"$func": 1}),
		#[allow(unreachable_patterns)]
		_ => json!({"$other": 1}),
	})
}

/// jsonnet text of an argument: JSON is jsonnet, `{"$err":1}` is a failing expression,
/// `{"$b":[op, args…]}` is an array produced by other builtins (the Lean driver evaluates the same
/// tree with the reference definitions)
fn j(v: &Value) -> String {
	match v {
		Value::Object(m) if m.contains_key("$err") => "(error 'x')".to_string(),
		Value::Object(m) if m.contains_key("$b") => {
			let b = m["$b"].as_array().expect("$b");
			let op = b[0].as_str().expect("builder op");
			let a = |i: usize| j(&b[i]);
			match op {
				"range" => format!("std.range({}, {})", a(1), a(2)),
				"slice" => format!("std.slice({}, {}, {}, {})", a(1), a(2), a(3), a(4)),
				"reverse" => format!("std.reverse({})", a(1)),
				"repeat" => format!("std.repeat({}, {})", a(1), a(2)),
				"sort" => format!("std.sort({})", a(1)),
				"map" | "mapWithIndex" | "filter" => {
					format!("std.{op}({}, {})", fn_text(b[1].as_str().expect("fn")), a(2))
				}
				"makeArray" => format!("std.makeArray({}, {})", a(1), fn_text(b[2].as_str().expect("fn"))),
				"concat" => format!("({} + {})", a(1), a(2)),
				"chars" => format!("std.stringChars({})", a(1)),
				"bytes" => format!("std.encodeUTF8({})", a(1)),
				"list" => format!("[{}]", b[1..].iter().map(j).collect::<Vec<_>>().join(", ")),
				"local" => format!("(local arr = {}; arr)", a(1)),
				_ => panic!("unknown builder {op}"),
			}
		}
		Value::Array(a) => format!("[{}]", a.iter().map(j).collect::<Vec<_>>().join(", ")),
		_ => v.to_string(),
	}
}

fn b(v: Value) -> Value {
	json!({ "$b": v })
}

/// element-wise dump of an array result: a failing element is recorded, not propagated
fn val_json_lazy(v: &Val) -> Result<Value, String> {
	match v {
		Val::Arr(a) => {
			let mut out = Vec::with_capacity(a.len());
			for i in 0..a.len() {
				match a.get(i) {
					Ok(Some(e)) => out.push(val_json(&e).unwrap_or_else(|_| json!({"$err": 1}))),
					Ok(None) => return Err("index out of range".into()),
					Err(_) => out.push(json!({"$err": 1})),
				}
			}
			Ok(Value::Array(out))
		}
		_ => val_json(v),
	}
}

/// source text of the call described by `op`
fn source(op: &Value) -> String {
	let fname = op["fn"].as_str().expect("fn");
	let a: Vec<String> = op["a"].as_array().expect("a").iter().map(j).collect();
	let f = op.get("f").and_then(Value::as_str).map(fn_text);
	let g = op.get("g").and_then(Value::as_str).map(fn_text);
	let args: Vec<String> = match fname {
		// (arr [, keyF])
		"sort" | "uniq" | "set" => {
			let mut v = a.clone();
			if let Some(f) = f {
				v.push(f.to_string());
			}
			v
		}
		// (x, arr [, keyF]) / (a, b [, keyF])
		"setMember" | "setUnion" | "setInter" | "setDiff" => {
			let mut v = a.clone();
			if let Some(f) = f {
				v.push(f.to_string());
			}
			v
		}
		"minArray" | "maxArray" => {
			let mut v = vec![a[0].clone()];
			if let Some(f) = f {
				v.push(format!("keyF={f}"));
			}
			if a.len() > 1 {
				v.push(format!("onEmpty={}", a[1]));
			}
			v
		}
		"avg" => {
			let mut v = vec![a[0].clone()];
			if a.len() > 1 {
				v.push(format!("onEmpty={}", a[1]));
			}
			v
		}
		// (func, arr, init)
		"foldl" | "foldr" => vec![f.expect("f").to_string(), a[0].clone(), a[1].clone()],
		"map" | "mapWithIndex" | "filter" | "flatMap" => vec![f.expect("f").to_string(), a[0].clone()],
		"filterMap" => vec![f.expect("f").to_string(), g.expect("g").to_string(), a[0].clone()],
		"makeArray" => vec![a[0].clone(), f.expect("f").to_string()],
		_ => a.clone(),
	};
	format!("std.{fname}({})", args.join(", "))
}

fn run_case(s: &State, op: &Value) -> Value {
	let code = source(op);
	let lazy = op["op"].as_str() == Some("std.lazy");
	match guarded(|| -> Result<Value, String> {
		let v = s
			.evaluate_snippet("<c10>".to_owned(), code.clone())
			.map_err(|e| format!("{}", e.error()))?;
		if lazy {
			val_json_lazy(&v)
		} else {
			val_json(&v)
		}
	}) {
		Ok(Ok(v)) => json!({ "ok": v }),
		Ok(Err(msg)) => json!({ "err": 1, "_msg": msg, "_src": code }),
		Err(p) => json!({ "panic": p, "_src": code }),
	}
}

// ---------------------------------------------------------------------------------------------
// generators

/// all arrays over `pool` of length 0..=n
fn all_arrays(pool: &[Value], n: usize) -> Vec<Value> {
	let mut out: Vec<Vec<Value>> = vec![vec![]];
	let mut layer: Vec<Vec<Value>> = vec![vec![]];
	for _ in 0..n {
		let mut next = Vec::new();
		for base in &layer {
			for e in pool {
				let mut b = base.clone();
				b.push(e.clone());
				next.push(b);
			}
		}
		out.extend(next.iter().cloned());
		layer = next;
	}
	out.into_iter().map(Value::Array).collect()
}

/// all sub-sequences of `sorted` (these are sets under the identity key when `sorted` is)
fn subsets(sorted: &[Value]) -> Vec<Value> {
	let n = sorted.len();
	(0..(1usize << n))
		.map(|mask| {
			Value::Array(
				(0..n)
					.filter(|i| mask & (1 << i) != 0)
					.map(|i| sorted[i].clone())
					.collect(),
			)
		})
		.collect()
}

fn reversed(v: &Value) -> Value {
	let mut a = v.as_array().expect("arr").clone();
	a.reverse();
	Value::Array(a)
}

fn alphabet() -> Vec<Value> {
	vec![
		json!(0),
		json!(1),
		json!(1),
		json!(2),
		json!(-1),
		json!("a"),
		json!("b"),
		json!("a"),
		json!(""),
		json!([]),
		json!([1]),
		json!([0, 1]),
		json!([1]),
		json!(null),
		json!(true),
		json!(false),
		json!({}),
		json!({"a": 1}),
		json!({"a": "x"}),
		json!({"a": 0}),
		json!([[1]]),
		json!(["a"]),
		json!([null]),
	]
}

fn rand_array(rng: &mut Rng, max_len: usize) -> Value {
	let alpha = alphabet();
	let n = rng.below(max_len + 1);
	// bias: mostly one family so that successful (comparable) cases are frequent
	let fam: Vec<Value> = match rng.below(6) {
		0 => vec![json!(0), json!(1), json!(2), json!(-1), json!(1)],
		1 => vec![json!("a"), json!("b"), json!(""), json!("ab"), json!("a")],
		2 => vec![json!([]), json!([1]), json!([0, 1]), json!([0]), json!([1])],
		3 => vec![json!({"a": 1}), json!({"a": 0}), json!({"a": 1}), json!({"a": 2})],
		_ => alpha.clone(),
	};
	let stray = rng.chance(1, 4);
	Value::Array(
		(0..n)
			.map(|_| {
				if stray && rng.chance(1, 4) {
					rng.pick(&alpha).clone()
				} else {
					rng.pick(&fam).clone()
				}
			})
			.collect(),
	)
}

struct Gen<'a> {
	s: &'a State,
	w: CaseWriter,
	hist: BTreeMap<String, usize>,
	outcome: BTreeMap<&'static str, usize>,
	len_hist: BTreeMap<usize, usize>,
	kind: BTreeMap<&'static str, usize>,
}
impl Gen<'_> {
	fn emit(&mut self, fname: &str, a: Vec<Value>, f: Option<&str>, g: Option<&str>) {
		self.emit_op("std.call", fname, a, f, g)
	}
	fn emit_lazy(&mut self, fname: &str, a: Vec<Value>, f: Option<&str>, g: Option<&str>) {
		self.emit_op("std.lazy", fname, a, f, g)
	}
	fn emit_op(&mut self, opname: &str, fname: &str, a: Vec<Value>, f: Option<&str>, g: Option<&str>) {
		let size: usize = 1 + a
			.iter()
			.map(|v| v.as_array().map_or(1, |x| x.len() + 1))
			.sum::<usize>();
		if let Some(first) = a.iter().find_map(Value::as_array) {
			*self.len_hist.entry(first.len()).or_default() += 1;
		}
		let built = a.iter().filter(|v| v.get("$b").is_some()).count();
		if built > 0 {
			*self.kind.entry("builtin-made argument").or_default() += 1;
		}
		if opname == "std.lazy" {
			*self.kind.entry("lazy elements").or_default() += 1;
		}
		let mut op = json!({"op":opname,"fn":fname,"a":a,"size":size});
		if let Some(f) = f {
			op["f"] = json!(f);
		}
		if let Some(g) = g {
			op["g"] = json!(g);
		}
		let ans = run_case(self.s, &op);
		*self.hist.entry(fname.to_string()).or_default() += 1;
		*self
			.outcome
			.entry(if ans.get("ok").is_some() {
				"ok"
			} else if ans.get("err").is_some() {
				"err"
			} else {
				"panic"
			})
			.or_default() += 1;
		self.w.case(op, ans);
	}
}

const KEYFS: [Option<&str>; 11] = [
	None,
	Some("id"),
	Some("idw"),
	Some("neg"),
	Some("const0"),
	Some("mod2"),
	Some("len"),
	Some("fieldA"),
	Some("failOnStr"),
	Some("type"),
	Some("wrap"),
];

pub fn run(opts: &Opts) {
	let s = new_state();
	let _g = s.enter();
	if let Some(path) = &opts.replay {
		let text = std::fs::read_to_string(path).expect("replay file");
		let v: Value = serde_json::from_str(&text).expect("replay json");
		let op = v.get("op").cloned().unwrap_or(v);
		let mut w = CaseWriter::new(&opts.out);
		let ans = run_case(&s, &op);
		println!("source: {}", source(&op));
		println!("implementation: {ans}");
		w.case(op, ans);
		w.finish(json!({"engine":"c10","cases":1,"rule":"replay"}), &opts.out);
		return;
	}
	let thorough = opts.thorough();
	let mut rng = Rng::new(opts.seed);
	let mut g = Gen {
		s: &s,
		w: CaseWriter::new(&opts.out),
		hist: BTreeMap::new(),
		outcome: BTreeMap::new(),
		len_hist: BTreeMap::new(),
		kind: BTreeMap::new(),
	};

	let nums = [json!(0), json!(1), json!(2), json!(-1)];
	let strs = [json!("a"), json!("b"), json!("")];
	let numarrs = [json!([]), json!([1]), json!([0, 1]), json!([0])];
	let objs = [json!({"a": 1}), json!({"a": 0}), json!({"a": "x"}), json!({})];
	let bools = [json!(true), json!(false), json!(1)];
	let non_arrays = [json!(null), json!(3), json!("ab"), json!({"a": 1}), json!(true)];

	let n_num = if thorough { 6 } else { 4 };
	let f_num = all_arrays(&nums, n_num);
	let f_num5 = all_arrays(&nums, if thorough { 7 } else { 5 });
	let f_str = all_arrays(&strs, if thorough { 4 } else { 3 });
	let f_numarr = all_arrays(&numarrs, 3);
	let f_obj = all_arrays(&objs, 3);
	let n_rand = if thorough { 3000 } else { 400 };
	let max_len = if thorough { 8 } else { 6 };
	let f_rand: Vec<Value> = (0..n_rand).map(|_| rand_array(&mut rng, max_len)).collect();

	// ---- sort / uniq / set -------------------------------------------------------------
	for fname in ["sort", "uniq", "set"] {
		for kf in KEYFS {
			for fam in [&f_num, &f_str, &f_numarr, &f_obj, &f_rand] {
				for arr in fam.iter() {
					g.emit(fname, vec![arr.clone()], kf, None);
				}
			}
		}
		for kf in [None, Some("neg"), Some("mod2"), Some("const0")] {
			for arr in f_num5.iter().filter(|a| a.as_array().unwrap().len() > n_num) {
				g.emit(fname, vec![arr.clone()], kf, None);
			}
		}
		for na in &non_arrays {
			g.emit(fname, vec![na.clone()], None, None);
			g.emit(fname, vec![na.clone()], Some("neg"), None);
		}
	}

	// long arrays (beyond the std sorts' insertion-sort cut-off of 20): numbers only, so every key
	// function of the pool that accepts numbers yields a total order and the stable result is unique
	for i in 0..(if thorough { 400 } else { 80 }) {
		let n = 21 + rng.below(if thorough { 60 } else { 30 });
		let arr: Vec<Value> = (0..n).map(|_| json!(rng.range(-3, 6))).collect();
		let kf = [None, Some("idw"), Some("neg"), Some("mod2"), Some("const0"), Some("wrap")][i % 6];
		for fname in ["sort", "set", "uniq", "minArray", "maxArray"] {
			g.emit(fname, vec![Value::Array(arr.clone())], kf, None);
		}
	}

	// ---- set operations ----------------------------------------------------------------
	let num_sets = subsets(&[json!(-1), json!(0), json!(1), json!(2), json!(3)]);
	let str_sets = subsets(&[json!(""), json!("a"), json!("ab"), json!("b")]);
	let arr_sets = subsets(&[json!([]), json!([0]), json!([0, 1]), json!([1])]);
	let obj_sets = subsets(&[json!({"a": 0}), json!({"a": 1}), json!({"a": 2})]);
	let small = all_arrays(&nums, 2);
	let num_sets_rev: Vec<Value> = num_sets.iter().map(reversed).collect();
	let len_sets = subsets(&[json!(""), json!("b"), json!("ab"), json!([0, 1, 2])]);
	for fname in ["setUnion", "setInter", "setDiff"] {
		let mut families: Vec<(&Vec<Value>, Vec<Option<&str>>)> = vec![
			(&num_sets, vec![None, Some("id"), Some("idw"), Some("wrap"), Some("failOnStr")]),
			(&num_sets_rev, vec![Some("neg")]),
			(&str_sets, vec![None, Some("idw"), Some("failOnStr")]),
			(&arr_sets, vec![None, Some("idw")]),
			(&len_sets, vec![Some("len")]),
			(&obj_sets, vec![Some("fieldA"), None]),
			(&small, vec![Some("mod2"), Some("const0"), Some("type"), Some("neg"), None]),
		];
		for (fam, kfs) in families.drain(..) {
			for kf in kfs {
				for a in fam.iter() {
					for b in fam.iter() {
						g.emit(fname, vec![a.clone(), b.clone()], kf, None);
					}
				}
			}
		}
		for _ in 0..(if thorough { 6000 } else { 1200 }) {
			let a = rng.pick(&f_rand).clone();
			let b = if rng.chance(1, 3) {
				rng.pick(&num_sets).clone()
			} else {
				rng.pick(&f_rand).clone()
			};
			let kf = *rng.pick(&KEYFS);
			g.emit(fname, vec![a, b], kf, None);
		}
		for na in &non_arrays {
			g.emit(fname, vec![na.clone(), json!([1])], None, None);
			g.emit(fname, vec![json!([1]), na.clone()], None, None);
		}
	}
	// setMember
	{
		let xs: Vec<Value> = vec![
			json!(-2), json!(-1), json!(0), json!(1), json!(2), json!(3), json!(4), json!("a"),
			json!(""), json!("ab"), json!("c"), json!([]), json!([0]), json!([0, 0]), json!([2]),
			json!(null), json!({"a": 1}), json!({"a": 5}), json!({"a": -1}),
		];
		let fams: Vec<(&Vec<Value>, Vec<Option<&str>>)> = vec![
			(&num_sets, vec![None, Some("id"), Some("idw"), Some("wrap"), Some("failOnStr")]),
			(&num_sets_rev, vec![Some("neg")]),
			(&str_sets, vec![None, Some("idw"), Some("len")]),
			(&arr_sets, vec![None, Some("len")]),
			(&len_sets, vec![Some("len")]),
			(&obj_sets, vec![Some("fieldA")]),
			(&small, vec![Some("mod2"), Some("const0"), Some("type")]),
		];
		for (fam, kfs) in fams {
			for kf in kfs {
				for arr in fam.iter() {
					for x in &xs {
						g.emit("setMember", vec![x.clone(), arr.clone()], kf, None);
					}
				}
			}
		}
		// longer sets: every position found / every gap missed
		for n in 0..=(if thorough { 40 } else { 17 }) {
			let arr: Vec<Value> = (0..n).map(|i| json!(2 * i)).collect();
			for x in -1..=(2 * n + 1) {
				g.emit("setMember", vec![json!(x), Value::Array(arr.clone())], None, None);
				g.emit("setMember", vec![json!(-x), reversed(&Value::Array(arr.clone()))], Some("neg"), None);
			}
		}
		for na in &non_arrays {
			g.emit("setMember", vec![json!(1), na.clone()], None, None);
		}
	}

	// ---- member / contains / find / count / remove ---------------------------------------
	let probes: Vec<Value> = vec![
		json!(0), json!(1), json!(-1), json!(3), json!("a"), json!(""), json!(null), json!([1]),
		json!([]), json!({"a": 1}), json!({}), json!(true),
	];
	let f_num3 = all_arrays(&nums, 3);
	for arr in f_num3.iter().chain(f_rand.iter()) {
		for x in &probes {
			g.emit("member", vec![arr.clone(), x.clone()], None, None);
			g.emit("contains", vec![arr.clone(), x.clone()], None, None);
			g.emit("find", vec![x.clone(), arr.clone()], None, None);
			g.emit("count", vec![arr.clone(), x.clone()], None, None);
			g.emit("remove", vec![arr.clone(), x.clone()], None, None);
		}
	}
	for s_ in ["", "a", "ab", "aba", "abab", "bbb"] {
		for p in ["", "a", "b", "ab", "ba", "abab", "ababa", "c"] {
			g.emit("member", vec![json!(s_), json!(p)], None, None);
			g.emit("contains", vec![json!(s_), json!(p)], None, None);
		}
		for p in [json!(1), json!(null), json!(["a"])] {
			g.emit("member", vec![json!(s_), p.clone()], None, None);
		}
	}
	for na in &non_arrays {
		g.emit("member", vec![na.clone(), json!(1)], None, None);
		g.emit("find", vec![json!(1), na.clone()], None, None);
		g.emit("count", vec![na.clone(), json!(1)], None, None);
		g.emit("remove", vec![na.clone(), json!(1)], None, None);
		g.emit("removeAt", vec![na.clone(), json!(0)], None, None);
	}

	// ---- removeAt: every index -3..len+3 plus the i32 extremes -----------------------------
	{
		let mut arrs: Vec<Value> = (0..=8usize)
			.map(|n| Value::Array((0..n).map(|i| json!(10 + i)).collect()))
			.collect();
		arrs.extend(all_arrays(&[json!(1), json!("a"), json!([1])], 3));
		arrs.extend(f_rand.iter().take(150).cloned());
		for arr in &arrs {
			let len = arr.as_array().unwrap().len() as i64;
			for i in -3..=len + 3 {
				g.emit("removeAt", vec![arr.clone(), json!(i)], None, None);
			}
			for i in [-(len + 1), -len, 2147483647i64, 2147483646, -2147483648, -2147483647] {
				g.emit("removeAt", vec![arr.clone(), json!(i)], None, None);
			}
		}
		g.emit("removeAt", vec![json!([1, 2]), json!("a")], None, None);
		g.emit("removeAt", vec![json!([1, 2]), json!(null)], None, None);
	}

	// ---- flatten -----------------------------------------------------------------------------
	{
		let pieces = [json!([]), json!([1]), json!([2, 3]), json!([[4]]), json!(["a", null])];
		for arrs in all_arrays(&pieces, if thorough { 5 } else { 4 }) {
			g.emit("flattenArrays", vec![arrs.clone()], None, None);
			g.emit("flattenDeepArray", vec![arrs], None, None);
		}
		// longer inputs exercise the balanced split
		for n in 5..=(if thorough { 40 } else { 20 }) {
			let arrs: Vec<Value> = (0..n)
				.map(|i| Value::Array((0..(i % 3)).map(|k| json!(10 * i + k)).collect()))
				.collect();
			g.emit("flattenArrays", vec![Value::Array(arrs)], None, None);
		}
		for arr in f_rand.iter() {
			g.emit("flattenArrays", vec![arr.clone()], None, None);
			g.emit("flattenDeepArray", vec![arr.clone()], None, None);
		}
		for v in [json!(1), json!("a"), json!(null), json!([[[1, [2]], 3], [[]], 4]), json!({"a": 1})] {
			g.emit("flattenDeepArray", vec![v.clone()], None, None);
			g.emit("flattenArrays", vec![v], None, None);
		}
	}

	// ---- folds / maps / filters ----------------------------------------------------------------
	let general: Vec<Value> = f_num3
		.iter()
		.chain(all_arrays(&strs, 2).iter())
		.chain(f_rand.iter())
		.cloned()
		.collect();
	let str_args = [json!(""), json!("a"), json!("ab"), json!("aba"), json!("baab")];
	let inits = [json!([]), json!(0), json!("s"), json!(null)];
	for arr in general.iter().chain(str_args.iter()).chain(non_arrays.iter()) {
		for init in &inits {
			for f in ["pair", "snoc", "add", "fst"] {
				g.emit("foldl", vec![arr.clone(), init.clone()], Some(f), None);
			}
			for f in ["pair", "cons", "add", "fst"] {
				g.emit("foldr", vec![arr.clone(), init.clone()], Some(f), None);
			}
		}
		for f in ["id", "neg", "wrap", "type", "inc", "len", "failOnStr", "cc"] {
			g.emit("map", vec![arr.clone()], Some(f), None);
		}
		for f in ["pair", "fst", "add"] {
			g.emit("mapWithIndex", vec![arr.clone()], Some(f), None);
		}
		for f in ["isNum", "pos", "eq1", "true", "id", "len", "failOnStr"] {
			g.emit("filter", vec![arr.clone()], Some(f), None);
		}
		for (f, m) in [("isNum", "neg"), ("isNum", "inc"), ("true", "neg"), ("pos", "wrap"), ("eq1", "type"), ("id", "id")] {
			g.emit("filterMap", vec![arr.clone()], Some(f), Some(m));
		}
		for f in ["dup", "numOrNull", "id", "wrap", "cc", "skipA", "const0", "failOnStr"] {
			g.emit("flatMap", vec![arr.clone()], Some(f), None);
		}
	}

	// ---- join / lines / deepJoin ---------------------------------------------------------------
	{
		let sitems = [json!("a"), json!(""), json!(null), json!("bc")];
		let aitems = [json!([1]), json!([]), json!(null), json!([2, 3])];
		let n = if thorough { 5 } else { 4 };
		for arr in all_arrays(&sitems, n) {
			for sep in [json!(""), json!(","), json!("--")] {
				g.emit("join", vec![sep, arr.clone()], None, None);
			}
			g.emit("lines", vec![arr.clone()], None, None);
			g.emit("deepJoin", vec![arr.clone()], None, None);
		}
		for arr in all_arrays(&aitems, n) {
			for sep in [json!([]), json!([0]), json!([8, 9])] {
				g.emit("join", vec![sep, arr.clone()], None, None);
			}
		}
		for arr in f_rand.iter() {
			g.emit("join", vec![json!(","), arr.clone()], None, None);
			g.emit("join", vec![json!([0]), arr.clone()], None, None);
			g.emit("lines", vec![arr.clone()], None, None);
			g.emit("deepJoin", vec![arr.clone()], None, None);
		}
		for v in [json!("abc"), json!(["a", ["b", ["c", ""]], []]), json!(["a", [1]]), json!(1), json!(null)] {
			g.emit("deepJoin", vec![v], None, None);
		}
		for sep in [json!(1), json!(null), json!({})] {
			g.emit("join", vec![sep, json!(["a", "b"])], None, None);
		}
		for na in &non_arrays {
			g.emit("join", vec![json!(","), na.clone()], None, None);
			g.emit("lines", vec![na.clone()], None, None);
		}
	}

	// ---- any / all / sum / avg / minArray / maxArray ----------------------------------------------
	for arr in all_arrays(&bools, if thorough { 5 } else { 4 }).iter().chain(f_rand.iter()).chain(non_arrays.iter()) {
		g.emit("any", vec![arr.clone()], None, None);
		g.emit("all", vec![arr.clone()], None, None);
	}
	for arr in f_num.iter().chain(f_rand.iter()).chain(non_arrays.iter()) {
		g.emit("sum", vec![arr.clone()], None, None);
		g.emit("avg", vec![arr.clone()], None, None);
	}
	g.emit("avg", vec![json!([]), json!("dflt")], None, None);
	g.emit("avg", vec![json!([1, 2]), json!("dflt")], None, None);
	for fname in ["minArray", "maxArray"] {
		for kf in KEYFS {
			for fam in [&f_num, &f_str, &f_numarr, &f_obj, &f_rand] {
				for arr in fam.iter() {
					g.emit(fname, vec![arr.clone()], kf, None);
				}
			}
		}
		g.emit(fname, vec![json!([]), json!("dflt")], None, None);
		g.emit(fname, vec![json!([]), json!("dflt")], Some("neg"), None);
		g.emit(fname, vec![json!([2, 1, 3]), json!("dflt")], Some("neg"), None);
		for na in &non_arrays {
			g.emit(fname, vec![na.clone()], None, None);
		}
	}

	// ---- range / repeat / slice / makeArray ----------------------------------------------------------
	for a in -3..=4i64 {
		for b in -4..=6i64 {
			g.emit("range", vec![json!(a), json!(b)], None, None);
		}
	}
	g.emit("range", vec![json!("a"), json!(1)], None, None);
	g.emit("range", vec![json!(0), json!(null)], None, None);
	for what in [json!([]), json!([1]), json!([1, "a"]), json!(""), json!("a"), json!("ab"), json!(1), json!(null)] {
		for c in -1..=4i64 {
			g.emit("repeat", vec![what.clone(), json!(c)], None, None);
		}
	}
	{
		let mut targets: Vec<Value> = (0..=6usize)
			.map(|n| Value::Array((0..n).map(|i| json!(10 + i)).collect()))
			.collect();
		targets.extend([json!(""), json!("a"), json!("abcde")]);
		for t in &targets {
			let len = t.as_array().map_or_else(|| t.as_str().unwrap().len(), Vec::len) as i64;
			let mut idx: Vec<Value> = vec![Value::Null];
			idx.extend((-3..=len + 3).map(|i| json!(i)));
			let steps = [Value::Null, json!(1), json!(2), json!(3)];
			for i in &idx {
				for e in &idx {
					for st in &steps {
						if len > 4 && st != &Value::Null && st != &json!(2) {
							continue;
						}
						g.emit("slice", vec![t.clone(), i.clone(), e.clone(), st.clone()], None, None);
					}
				}
			}
			for st in [json!(0), json!(-1)] {
				g.emit("slice", vec![t.clone(), json!(0), json!(2), st], None, None);
			}
		}
		for na in [json!(null), json!(1), json!({})] {
			g.emit("slice", vec![na, json!(0), json!(1), json!(1)], None, None);
		}
	}
	for n in -2..=6i64 {
		for f in ["twice", "wrap", "lit", "const0", "id", "len", "neg"] {
			g.emit("makeArray", vec![json!(n)], Some(f), None);
		}
	}
	g.emit("makeArray", vec![json!("a")], Some("id"), None);

	// ---- round 3: arguments PRODUCED BY OTHER BUILTINS (every ArrayLike representation: range,
	// stepped slice over cheap / lazy / eager inners, reverse, repeat, sort result, mapped, filtered,
	// makeArray, extended, bytes, chars) fed to every function -------------------------------------
	{
		let r = |a: i64, z: i64| b(json!(["range", a, z]));
		let sl = |x: Value, i: Value, e: Value, st: Value| b(json!(["slice", x, i, e, st]));
		let n = Value::Null;
		let num_arrays: Vec<Value> = vec![
			r(0, 7),
			r(-2, 3),
			r(3, 3),
			r(2, 1),
			sl(r(0, 7), json!(1), json!(8), json!(3)),
			sl(r(0, 9), json!(0), n.clone(), json!(2)),
			sl(r(0, 9), json!(2), json!(9), json!(4)),
			sl(r(0, 5), n.clone(), n.clone(), json!(2)),
			sl(r(0, 7), json!(-5), json!(-1), json!(2)),
			sl(json!([5, 3, 1, 4, 2, 0, 6]), json!(1), n.clone(), json!(2)),
			sl(sl(r(0, 15), json!(1), n.clone(), json!(2)), json!(1), n.clone(), json!(3)),
			b(json!(["reverse", r(0, 4)])),
			b(json!(["reverse", sl(r(0, 7), json!(1), json!(8), json!(3))])),
			sl(b(json!(["reverse", r(0, 8)])), json!(1), json!(8), json!(3)),
			b(json!(["repeat", r(1, 2), 3])),
			b(json!(["repeat", sl(r(0, 5), json!(0), json!(6), json!(2)), 2])),
			sl(b(json!(["repeat", [1, 2, 3], 3])), json!(1), json!(9), json!(2)),
			b(json!(["sort", [3, 1, 2, 1]])),
			sl(b(json!(["sort", [5, 3, 1, 4, 2, 0]])), json!(1), json!(6), json!(2)),
			b(json!(["map", "inc", r(0, 3)])),
			sl(b(json!(["map", "twice", r(0, 6)])), json!(1), json!(7), json!(2)),
			b(json!(["mapWithIndex", "add", [1, 1, 1]])),
			b(json!(["filter", "pos", r(-2, 3)])),
			sl(b(json!(["filter", "pos", r(-2, 6)])), json!(0), n.clone(), json!(2)),
			b(json!(["makeArray", 4, "twice"])),
			sl(b(json!(["makeArray", 7, "id"])), json!(1), json!(7), json!(3)),
			b(json!(["concat", r(0, 2), sl(r(0, 7), json!(1), json!(8), json!(3))])),
			b(json!(["bytes", "abc"])),
			sl(b(json!(["bytes", "abcdefg"])), json!(1), json!(7), json!(3)),
			b(json!(["reverse", b(json!(["bytes", "ab"]))])),
			b(json!(["local", [1, 2, 3]])),
			sl(b(json!(["local", [0, 1, 2, 3, 4, 5, 6, 7]])), json!(1), json!(8), json!(3)),
		];
		let str_arrays: Vec<Value> = vec![
			b(json!(["chars", "abcdef"])),
			sl(b(json!(["chars", "abcdefg"])), json!(1), json!(7), json!(3)),
			b(json!(["reverse", b(json!(["chars", "abc"]))])),
			b(json!(["repeat", ["a", "b"], 2])),
			sl(json!(["a", "b", "c", "d", "e"]), json!(0), json!(5), json!(2)),
			sl(json!(["a", null, "b", null, "c"]), json!(0), json!(5), json!(2)),
			sl(json!(["a", null, "b", "c", null]), json!(1), json!(5), json!(3)),
			b(json!(["map", "cc", ["a", "b"]])),
			b(json!(["sort", ["b", "a", "c"]])),
			sl(b(json!(["sort", ["d", "b", "a", "c"]])), json!(0), json!(4), json!(2)),
			sl(b(json!(["repeat", ["x", "y", "z"], 2])), json!(1), json!(6), json!(2)),
		];
		let arr_arrays: Vec<Value> = vec![
			b(json!(["list", sl(r(0, 7), json!(1), json!(8), json!(3)), b(json!(["reverse", r(0, 2)])), r(2, 1)])),
			b(json!(["list", r(2, 1), r(2, 1), sl(r(0, 7), json!(1), json!(8), json!(3)), r(0, 1)])),
			sl(json!([[1], [2], [3], [4], [5]]), json!(0), json!(5), json!(2)),
			sl(json!([[1], null, [2], [3], null]), json!(1), json!(5), json!(3)),
			sl(json!([[], [], [1], [2], []]), json!(0), json!(5), json!(2)),
			b(json!(["map", "wrap", r(0, 3)])),
			b(json!(["map", "dup", sl(r(0, 5), json!(0), json!(6), json!(2))])),
			b(json!(["repeat", [[1], [2, 3]], 2])),
			b(json!(["reverse", [[1], [], [2, 3]]])),
			sl(b(json!(["repeat", [[], [1], [2, 3]], 3])), json!(0), json!(9), json!(2)),
		];
		for x in &num_arrays {
			for (fname, kf) in [("sort", None), ("sort", Some("neg")), ("uniq", None), ("set", None), ("set", Some("mod2")), ("minArray", None), ("maxArray", Some("neg"))] {
				g.emit(fname, vec![x.clone()], kf, None);
			}
			for y in [json!([1, 4]), sl(r(0, 9), json!(1), json!(9), json!(3))] {
				for fname in ["setUnion", "setInter", "setDiff"] {
					g.emit(fname, vec![x.clone(), y.clone()], None, None);
					g.emit(fname, vec![y.clone(), x.clone()], None, None);
				}
			}
			for p in [json!(4), json!(1), json!(98)] {
				g.emit("setMember", vec![p.clone(), x.clone()], None, None);
				g.emit("member", vec![x.clone(), p.clone()], None, None);
				g.emit("contains", vec![x.clone(), p.clone()], None, None);
				g.emit("count", vec![x.clone(), p.clone()], None, None);
				g.emit("find", vec![p.clone(), x.clone()], None, None);
				g.emit("remove", vec![x.clone(), p.clone()], None, None);
			}
			for i in -1..=9i64 {
				g.emit("removeAt", vec![x.clone(), json!(i)], None, None);
			}
			g.emit("flattenDeepArray", vec![x.clone()], None, None);
			g.emit("flattenArrays", vec![b(json!(["list", x, x]))], None, None);
			g.emit("flattenArrays", vec![b(json!(["list", x, [], x, [9]]))], None, None);
			g.emit("join", vec![json!([0]), b(json!(["list", x, null, x]))], None, None);
			g.emit("join", vec![x.clone(), b(json!(["list", [7], x, [8]]))], None, None);
			g.emit("foldl", vec![x.clone(), json!(0)], Some("add"), None);
			g.emit("foldl", vec![x.clone(), json!([])], Some("snoc"), None);
			g.emit("foldr", vec![x.clone(), json!([])], Some("cons"), None);
			g.emit("foldr", vec![x.clone(), json!(0)], Some("pair"), None);
			for f in ["inc", "wrap", "neg"] {
				g.emit("map", vec![x.clone()], Some(f), None);
			}
			for f in ["pair", "add"] {
				g.emit("mapWithIndex", vec![x.clone()], Some(f), None);
			}
			for f in ["pos", "eq1", "true"] {
				g.emit("filter", vec![x.clone()], Some(f), None);
			}
			g.emit("filterMap", vec![x.clone()], Some("pos"), Some("twice"));
			for f in ["dup", "numOrNull"] {
				g.emit("flatMap", vec![x.clone()], Some(f), None);
			}
			for fname in ["any", "all", "sum", "avg", "lines", "deepJoin"] {
				g.emit(fname, vec![x.clone()], None, None);
			}
			g.emit("repeat", vec![x.clone(), json!(2)], None, None);
			for (i, e, st) in [(json!(1), n.clone(), json!(2)), (json!(-3), n.clone(), json!(1)), (json!(0), json!(-1), json!(3)), (n.clone(), json!(2), n.clone())] {
				g.emit("slice", vec![x.clone(), i, e, st], None, None);
			}
		}
		for x in &str_arrays {
			for sep in [json!(","), json!(""), json!("--")] {
				g.emit("join", vec![sep, x.clone()], None, None);
			}
			for fname in ["lines", "deepJoin", "flattenDeepArray", "sort", "uniq", "set", "minArray", "maxArray"] {
				g.emit(fname, vec![x.clone()], None, None);
			}
			for p in [json!("b"), json!("zz")] {
				g.emit("member", vec![x.clone(), p.clone()], None, None);
				g.emit("count", vec![x.clone(), p.clone()], None, None);
				g.emit("find", vec![p.clone(), x.clone()], None, None);
				g.emit("remove", vec![x.clone(), p.clone()], None, None);
			}
			for i in 0..=4i64 {
				g.emit("removeAt", vec![x.clone(), json!(i)], None, None);
			}
			g.emit("foldl", vec![x.clone(), json!("")], Some("add"), None);
			g.emit("foldr", vec![x.clone(), json!("")], Some("add"), None);
			g.emit("map", vec![x.clone()], Some("cc"), None);
			g.emit("flatMap", vec![x.clone()], Some("wrap"), None);
			g.emit("filter", vec![x.clone()], Some("true"), None);
			g.emit("slice", vec![x.clone(), json!(1), n.clone(), json!(2)], None, None);
			g.emit("repeat", vec![x.clone(), json!(2)], None, None);
		}
		for x in &arr_arrays {
			g.emit("flattenArrays", vec![x.clone()], None, None);
			g.emit("flattenDeepArray", vec![x.clone()], None, None);
			for sep in [json!([]), json!([0]), json!([8, 9]), r(5, 6)] {
				g.emit("join", vec![sep, x.clone()], None, None);
			}
			g.emit("foldl", vec![x.clone(), json!([])], Some("add"), None);
			g.emit("flatMap", vec![x.clone()], Some("id"), None);
			g.emit("map", vec![x.clone()], Some("len"), None);
			g.emit("sort", vec![x.clone()], None, None);
			g.emit("deepJoin", vec![x.clone()], None, None);
			for i in 0..=3i64 {
				g.emit("removeAt", vec![x.clone(), json!(i)], None, None);
			}
		}
	}

	// ---- round 3: lazily failing elements — which elements does each loop force? -------------------
	{
		let err = json!({"$err": 1});
		let bool_pool = [json!(false), json!(true), err.clone(), json!(1)];
		for arr in all_arrays(&bool_pool, if thorough { 5 } else { 4 }) {
			g.emit_lazy("any", vec![arr.clone()], None, None);
			g.emit_lazy("all", vec![arr], None, None);
		}
		let num_pool = [json!(1), json!(2), err.clone(), json!("a")];
		for arr in all_arrays(&num_pool, if thorough { 4 } else { 3 }) {
			for p in [json!(1), json!(2), json!("zz")] {
				g.emit_lazy("member", vec![arr.clone(), p.clone()], None, None);
				g.emit_lazy("contains", vec![arr.clone(), p.clone()], None, None);
				g.emit_lazy("find", vec![p.clone(), arr.clone()], None, None);
				g.emit_lazy("count", vec![arr.clone(), p.clone()], None, None);
			}
			// callbacks that use both arguments (add), only the running value (fst/inc1 for foldl,
			// snd/inc2 for foldr), only the element (snd / fst), neither (const7), or store an argument
			// unevaluated in an array (snoc, cons, pair); `init` may fail as well
			for f in ["add", "fst", "snoc", "inc1", "snd", "const7", "pair"] {
				g.emit_lazy("foldl", vec![arr.clone(), json!(0)], Some(f), None);
				g.emit_lazy("foldl", vec![arr.clone(), json!([])], Some(f), None);
				g.emit_lazy("foldl", vec![arr.clone(), err.clone()], Some(f), None);
			}
			for f in ["add", "cons", "pair", "snd", "inc2", "fst", "const7"] {
				g.emit_lazy("foldr", vec![arr.clone(), json!(0)], Some(f), None);
				g.emit_lazy("foldr", vec![arr.clone(), json!([])], Some(f), None);
				g.emit_lazy("foldr", vec![arr.clone(), err.clone()], Some(f), None);
			}
			for f in ["true", "pos", "isNum", "eq1", "const0", "failOnStr"] {
				g.emit_lazy("filter", vec![arr.clone()], Some(f), None);
			}
			for (f, m) in [("true", "const0"), ("true", "inc"), ("isNum", "twice"), ("pos", "wrap"), ("true", "lit")] {
				g.emit_lazy("filterMap", vec![arr.clone()], Some(f), Some(m));
			}
			for f in ["inc", "const0", "wrap", "type", "lit"] {
				g.emit_lazy("map", vec![arr.clone()], Some(f), None);
			}
			for f in ["fst", "pair", "add"] {
				g.emit_lazy("mapWithIndex", vec![arr.clone()], Some(f), None);
			}
			for f in ["dup", "numOrNull", "wrap", "arr1", "const0", "inc"] {
				g.emit_lazy("flatMap", vec![arr.clone()], Some(f), None);
			}
			g.emit_lazy("sum", vec![arr.clone()], None, None);
			g.emit_lazy("avg", vec![arr.clone()], None, None);
			g.emit_lazy("avg", vec![arr.clone(), err.clone()], None, None);
			g.emit_lazy("avg", vec![arr.clone(), json!("dflt")], None, None);
			for fname in ["minArray", "maxArray"] {
				for kf in [None, Some("neg"), Some("const0")] {
					g.emit_lazy(fname, vec![arr.clone()], kf, None);
					g.emit_lazy(fname, vec![arr.clone(), err.clone()], kf, None);
				}
				g.emit_lazy(fname, vec![arr.clone(), json!("dflt")], None, None);
			}
		}
		// strings are folded character by character: only `init` can be lazy there
		for sv in [json!(""), json!("a"), json!("ab")] {
			for f in ["add", "fst", "snd", "const7", "pair"] {
				for init in [json!(""), err.clone()] {
					g.emit_lazy("foldl", vec![sv.clone(), init.clone()], Some(f), None);
					g.emit_lazy("foldr", vec![sv.clone(), init], Some(f), None);
				}
			}
		}
		// std.join with an array separator: the joined arrays and the separator keep their elements lazy
		let item_pool = [json!([1]), json!([err.clone()]), json!([]), json!(null), json!([2, err.clone()]), json!(3), err.clone()];
		for items in all_arrays(&item_pool, if thorough { 3 } else { 2 }) {
			for sep in [json!([]), json!([0]), json!([err.clone()]), json!([0, err.clone()])] {
				g.emit_lazy("join", vec![sep, items.clone()], None, None);
			}
		}
		// set operations: the key function is called only on elements that are compared
		let set_pool = [json!(1), json!(2), json!(3), err.clone()];
		let sides = all_arrays(&set_pool, 2);
		for kf in [None, Some("neg"), Some("const0"), Some("failOnStr")] {
			for a in &sides {
				for b in &sides {
					for fname in ["setUnion", "setInter", "setDiff"] {
						g.emit_lazy(fname, vec![a.clone(), b.clone()], kf, None);
					}
				}
				for x in [json!(1), json!(2), err.clone()] {
					g.emit_lazy("setMember", vec![x, a.clone()], kf, None);
				}
			}
		}
	}

	let meta = json!({
		"engine": "c10",
		"cases": g.w.n,
		"per_function": g.hist,
		"outcomes": g.outcome,
		"first_array_arg_length_hist": g.len_hist,
		"argument_kinds": g.kind,
		"rule": "std.<fn>(args) evaluated from source by the real evaluator for 40 functions: exhaustive arrays over {0,1,2,-1} (len<=4 quick, all key functions; len 5 for 4 keys), over {'a','b',''} (len<=3), over number arrays, over objects, plus seeded mixed-type arrays with duplicates/nesting (len<=6 quick/8 thorough); set operations on all pairs of subsets of 5 numbers / 4 strings / 4 arrays / 3 objects under matching key functions plus arbitrary (non-set) pairs; removeAt at every index -3..len+3 and the i32 extremes; slice over all index pairs -3..len+3 x steps; key/predicate/fold functions from a named pool of 31 (identity, total, partial, type-changing, non-injective); round 3: 53 arrays produced by other builtins (range, stepped slices of range/literal/sorted/mapped/filtered/repeated/reversed/bytes/chars arrays, nested slices, extended) fed to every function, and arrays with failing elements (error 'x') with an element-wise dump to observe which elements each loop forces; round 4: fold callbacks that ignore the element / the running value / both or store them unevaluated, failing `init`, flatMap callbacks that ignore the element, std.join with an array separator over arrays with failing elements, set operations and setMember over arrays with failing elements under forcing and non-forcing key functions"
	});
	let Gen { w, .. } = g;
	w.finish(meta, &opts.out);
}
