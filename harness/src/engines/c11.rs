//! C11 — stdlib string / encoding / parsing / hashing functions against their definitions.
//! Every case is one call of the REAL builtin through `function(a,b,c) std.<fn>(a,b,c)` with
//! argument values built directly as `Val`s (so the lexer's string-literal decoding is not in the
//! loop).  Strings travel as arrays of code points, numbers as decimal strings.
//!   op "str.call"  {"fn":name,"a":[arg..]}     -> compared with Model/Spec in Lean (Model/Str.lean)
//!   op "str.ext"   {"fn":name,"a":[arg..]}     -> Lean answers skip; checks/props/C11.py compares
//!                                                  with hashlib / json / PyYAML (observation)
use std::collections::BTreeMap;

use jrsonnet_evaluator::{
	function::NativeFn, typed::FromUntyped, val::ArrValue, val::NumValue, State, Thunk, Val,
};
use serde_json::{json, Value};

use crate::common::{guarded, new_state, CaseWriter, Opts, Rng};

type F1 = NativeFn<(Val, Val)>;
type F2 = NativeFn<(Val, Val, Val)>;
type F3 = NativeFn<(Val, Val, Val, Val)>;

enum Fun {
	A1(F1),
	A2(F2),
	A3(F3),
}

const ARITY: &[(&str, usize)] = &[
	("length", 1),
	("substr", 3),
	("split", 2),
	("splitLimit", 3),
	("splitLimitR", 3),
	("strReplace", 3),
	("findSubstr", 2),
	("startsWith", 2),
	("endsWith", 2),
	("stripChars", 2),
	("lstripChars", 2),
	("rstripChars", 2),
	("trim", 1),
	("asciiUpper", 1),
	("asciiLower", 1),
	("stringChars", 1),
	("codepoint", 1),
	("char", 1),
	("equalsIgnoreCase", 2),
	("isEmpty", 1),
	("escapeStringBash", 1),
	("escapeStringDollars", 1),
	("escapeStringJson", 1),
	("escapeStringPython", 1),
	("escapeStringXML", 1),
	("parseInt", 1),
	("parseOctal", 1),
	("parseHex", 1),
	("parseJson", 1),
	("parseYaml", 1),
	("encodeUTF8", 1),
	("decodeUTF8", 2),
	("base64", 1),
	("base64Decode", 1),
	("base64DecodeBytes", 1),
	("md5", 1),
	("sha1", 1),
	("sha256", 1),
	("sha512", 1),
	("sha3", 1),
];

fn make_fun(s: &State, name: &str, arity: usize) -> Fun {
	let code = match (name, arity) {
		("decodeUTF8", _) => "function(a, b) std.decodeUTF8(a, lossy=b)".to_string(),
		(_, 1) => format!("function(a) std.{name}(a)"),
		(_, 2) => format!("function(a, b) std.{name}(a, b)"),
		_ => format!("function(a, b, c) std.{name}(a, b, c)"),
	};
	let v = s.evaluate_snippet("<c11>".to_owned(), code).expect("wrapper");
	match arity {
		1 => Fun::A1(FromUntyped::from_untyped(v).expect("f1")),
		2 => Fun::A2(FromUntyped::from_untyped(v).expect("f2")),
		_ => Fun::A3(FromUntyped::from_untyped(v).expect("f3")),
	}
}

fn cps(s: &str) -> Value {
	Value::Array(s.chars().map(|c| json!(c as u32)).collect())
}
fn jstr(s: &str) -> Value {
	json!({ "s": cps(s) })
}
fn jnum(n: i64) -> Value {
	json!({ "n": n })
}
fn jbytes(b: &[i64]) -> Value {
	json!({ "arr": b.iter().map(|x| jnum(*x)).collect::<Vec<_>>() })
}

fn to_val(j: &Value) -> Val {
	if let Some(s) = j.get("s") {
		let st: String = s
			.as_array()
			.expect("s")
			.iter()
			.map(|c| char::from_u32(c.as_u64().expect("cp") as u32).expect("scalar"))
			.collect();
		Val::string(st)
	} else if let Some(n) = j.get("n") {
		Val::Num(NumValue::new(n.as_i64().expect("n") as f64).expect("finite"))
	} else if let Some(a) = j.get("arr") {
		let vals: Vec<Thunk<Val>> =
			a.as_array().expect("arr").iter().map(|e| Thunk::evaluated(to_val(e))).collect();
		Val::Arr(ArrValue::lazy(vals))
	} else if let Some(b) = j.get("bool") {
		Val::Bool(b.as_bool().expect("bool"))
	} else {
		Val::Null
	}
}

fn num_text(f: f64) -> String {
	if f.fract() == 0.0 {
		let t = format!("{f:.0}");
		if t == "-0" {
			"0".to_string()
		} else {
			t
		}
	} else {
		format!("frac:{:016x}", f.to_bits())
	}
}

fn of_val(v: &Val) -> Result<Value, String> {
	Ok(match v {
		Val::Null => json!("null"),
		Val::Bool(b) => json!({ "bool": b }),
		Val::Num(n) => json!({ "n": num_text(n.get()) }),
		Val::Str(s) => jstr(&s.to_string()),
		Val::Arr(a) => {
			let mut out = Vec::with_capacity(a.len());
			for e in a.iter() {
				let e = e.map_err(|e| format!("{}", e.error()))?;
				out.push(of_val(&e)?);
			}
			json!({ "arr": out })
		}
		Val::Obj(o) => {
			let mut m = serde_json::Map::new();
			for k in o.fields(
				#[cfg(feature = "exp-preserve-order")]
				false,
			) {
				let fv = o
					.get(k.clone())
					.map_err(|e| format!("{}", e.error()))?
					.ok_or_else(|| "missing".to_string())?;
				m.insert(k.to_string(), of_val(&fv)?);
			}
			json!({ "obj": m })
		}
		_ => json!({ "other": 1 }),
	})
}

fn call(f: &Fun, args: &[Value]) -> Value {
	let a: Vec<Val> = args.iter().map(to_val).collect();
	let r = guarded(|| {
		let r = match f {
			Fun::A1(f) => f.call(a[0].clone()),
			Fun::A2(f) => f.call(a[0].clone(), a[1].clone()),
			Fun::A3(f) => f.call(a[0].clone(), a[1].clone(), a[2].clone()),
		};
		r.map_err(|e| format!("{}", e.error())).and_then(|v| of_val(&v))
	});
	match r {
		Ok(Ok(v)) => json!({ "ok": v }),
		Ok(Err(m)) => json!({"err": 1, "_msg": m}),
		Err(p) => json!({"panic": 1, "_msg": p}),
	}
}

// ---------------------------------------------------------------------------------------------
// generators

const ALPHA: [char; 9] = ['a', 'B', ' ', 'é', 'ß', '→', '😀', '\u{301}', ','];

fn all_strings(alpha: &[char], max: usize) -> Vec<String> {
	let mut out = vec![String::new()];
	let mut layer = vec![String::new()];
	for _ in 0..max {
		let mut next = Vec::new();
		for s in &layer {
			for c in alpha {
				let mut t = s.clone();
				t.push(*c);
				next.push(t);
			}
		}
		out.extend(next.iter().cloned());
		layer = next;
	}
	out
}

fn rand_string(rng: &mut Rng, alpha: &[char], lo: usize, hi: usize) -> String {
	let n = lo + rng.below(hi - lo + 1);
	(0..n).map(|_| *rng.pick(alpha)).collect()
}

struct Gen<'a> {
	w: CaseWriter,
	funs: BTreeMap<&'static str, Fun>,
	hist: BTreeMap<String, usize>,
	lens: BTreeMap<usize, usize>,
	nonascii: usize,
	errs: usize,
	panics: usize,
	seen: std::collections::HashSet<String>,
	_s: &'a State,
}

impl Gen<'_> {
	fn emit(&mut self, op: &str, name: &'static str, args: Vec<Value>) {
		let key = format!("{name}{}", Value::Array(args.clone()));
		if !self.seen.insert(key) {
			return;
		}
		let ans = call(&self.funs[name], &args);
		*self.hist.entry(name.to_string()).or_default() += 1;
		let mut size = 0usize;
		for a in &args {
			if let Some(s) = a.get("s").and_then(Value::as_array) {
				size += s.len() + 1;
				*self.lens.entry(s.len()).or_default() += 1;
				if s.iter().any(|c| c.as_u64().unwrap_or(0) > 127) {
					self.nonascii += 1;
				}
			} else if let Some(s) = a.get("arr").and_then(Value::as_array) {
				size += s.len() + 1;
			} else {
				size += 1;
			}
		}
		if ans.get("err").is_some() {
			self.errs += 1;
		}
		if ans.get("panic").is_some() {
			self.panics += 1;
		}
		self.w.case(json!({"op": op, "fn": name, "a": args, "size": size}), ans);
	}
	fn call(&mut self, name: &'static str, args: Vec<Value>) {
		self.emit("str.call", name, args);
	}
	fn ext(&mut self, name: &'static str, args: Vec<Value>) {
		self.emit("str.ext", name, args);
	}
}

fn json_doc(rng: &mut Rng, depth: usize, yaml: bool) -> String {
	let k = if depth == 0 { rng.below(5) } else { rng.below(7) };
	let sp = |rng: &mut Rng| if yaml || rng.chance(1, 2) { " " } else { "" };
	match k {
		0 => "null".into(),
		1 => (*rng.pick(&["true", "false"])).to_string(),
		2 => {
			let pool: &[&str] = if yaml {
				&["0", "1", "-1", "42", "1.5", "-0.25", "123456789", "9007199254740991", "100.0"]
			} else {
				&["0", "1", "-1", "42", "1.5", "-0.25", "1e3", "1E-2", "123456789", "9007199254740991", "2.5e+3", "-0"]
			};
			(*rng.pick(pool)).to_string()
		}
		3 | 4 => {
			let pool: &[&str] = if yaml {
				&["", "a", "é", "😀", "a b", "yes", "null", "1", "x,y", "→ß", "q\\\"q", "t\\nn", "\\u00e9", "#c", "k: v", "- i", "~"]
			} else {
				&["", "a", "é", "😀", "a b", "yes", "null", "1", "x,y", "→ß", "q\\\"q", "t\\nn", "\\u00e9", "\\ud83d\\ude00", "#c", "k: v", "- i", "~", "\\/", "\\b\\f\\r\\t"]
			};
			format!("\"{}\"", rng.pick(pool))
		}
		5 => {
			let n = rng.below(4);
			let items: Vec<String> = (0..n).map(|_| json_doc(rng, depth - 1, yaml)).collect();
			let s = sp(rng);
			format!("[{}]", items.join(&format!(",{s}")))
		}
		_ => {
			let n = rng.below(4);
			let keys = ["a", "b", "é", "k k", "", "z1"];
			let mut used = Vec::new();
			let mut items = Vec::new();
			for _ in 0..n {
				let k = *rng.pick(&keys);
				if used.contains(&k) {
					continue;
				}
				used.push(k);
				let s = sp(rng);
				items.push(format!("\"{k}\":{s}{}", json_doc(rng, depth - 1, yaml)));
			}
			let s = sp(rng);
			format!("{{{}}}", items.join(&format!(",{s}")))
		}
	}
}

pub fn run(opts: &Opts) {
	let s = new_state();
	let _g = s.enter();
	let mut funs = BTreeMap::new();
	for (n, a) in ARITY {
		funs.insert(*n, make_fun(&s, n, *a));
	}
	let mut g = Gen {
		w: CaseWriter::new(&opts.out),
		funs,
		hist: BTreeMap::new(),
		lens: BTreeMap::new(),
		nonascii: 0,
		errs: 0,
		panics: 0,
		seen: std::collections::HashSet::new(),
		_s: &s,
	};
	let mut rng = Rng::new(opts.seed);
	let thorough = opts.thorough();
	let scale = if thorough { 8 } else { 1 };

	// ---- pools ----
	let exh_len = if thorough { 4 } else { 3 };
	let mut unary: Vec<String> = all_strings(&ALPHA, exh_len);
	for _ in 0..400 * scale {
		unary.push(rand_string(&mut rng, &ALPHA, exh_len + 1, 12));
	}
	// characters that matter to particular functions
	let special: Vec<char> = vec![
		'a', 'z', 'A', 'Z', '@', '[', '`', '{', 'm', 'M', '\'', '$', '"', '\\', '<', '>', '&', '/', '\0',
		'\u{1}', '\u{8}', '\t', '\n', '\u{b}', '\u{c}', '\r', '\u{1f}', ' ', '\u{7f}', '\u{80}', '\u{85}',
		'\u{a0}', '\u{e9}', '\u{c9}', '\u{17f}', '\u{212a}', '\u{2028}', '\u{3000}', '\u{feff}', '\u{ff41}',
		'\u{d7ff}', '\u{e000}', '\u{ffff}', '\u{10000}', '\u{10ffff}', '0', '9',
	];
	let mut specials: Vec<String> = all_strings(&special, 1);
	for _ in 0..600 * scale {
		specials.push(rand_string(&mut rng, &special, 2, 8));
	}
	for name in [
		"length", "trim", "asciiUpper", "asciiLower", "stringChars", "isEmpty", "escapeStringBash",
		"escapeStringDollars", "escapeStringJson", "escapeStringPython", "escapeStringXML", "encodeUTF8",
		"base64", "codepoint",
	] {
		for st in unary.iter().chain(specials.iter()) {
			g.call(name, vec![jstr(st)]);
		}
	}
	// wrong argument types (must be errors, never panics)
	for name in ["length", "asciiUpper", "codepoint", "parseInt", "encodeUTF8", "base64Decode", "trim", "md5"] {
		g.call(name, vec![jnum(1)]);
		g.call(name, vec![json!({"bool": true})]);
	}

	// ---- substr ----
	let sub_pool: Vec<String> = {
		let mut v = all_strings(&['a', 'é', '😀'], 3);
		for _ in 0..40 * scale {
			v.push(rand_string(&mut rng, &ALPHA, 4, 12));
		}
		v
	};
	for st in &sub_pool {
		let n = st.chars().count() as i64;
		for from in 0..=n + 2 {
			for len in 0..=n + 2 {
				g.call("substr", vec![jstr(st), jnum(from), jnum(len)]);
			}
		}
		for (from, len) in [(-1, 1), (0, -1), (1 << 40, 1), (0, 1 << 40), (1, (1 << 53) - 1), ((1 << 53) - 1, (1 << 53) - 1), (1 << 53, 0)] {
			g.call("substr", vec![jstr(st), jnum(from), jnum(len)]);
		}
	}

	// ---- two-string functions ----
	let small: [char; 5] = ['a', 'B', 'é', '→', '😀'];
	let tiny: [char; 2] = ['a', 'é'];
	let mut pairs: Vec<(String, String)> = Vec::new();
	{
		let strs = all_strings(&small, 3);
		let pats = all_strings(&small, 2);
		for a in &strs {
			for b in &pats {
				pairs.push((a.clone(), b.clone()));
			}
		}
		// overlapping / repeating
		let strs = all_strings(&tiny, if thorough { 7 } else { 6 });
		let pats = all_strings(&tiny, 3);
		for a in &strs {
			for b in &pats {
				pairs.push((a.clone(), b.clone()));
			}
		}
		// partial-byte overlaps: é=C3 A9, ß=C3 9F, ò=C3 B2, 😀=F0 9F 98 80, 😁=F0 9F 98 81, ©=C2 A9
		let bytey: [char; 6] = ['é', 'ß', '©', '😀', '😁', 'ò'];
		let strs = all_strings(&bytey, 3);
		let pats = all_strings(&bytey, 2);
		for a in &strs {
			for b in &pats {
				pairs.push((a.clone(), b.clone()));
			}
		}
		for _ in 0..1500 * scale {
			let a = rand_string(&mut rng, &ALPHA, 0, 12);
			let b = if rng.chance(1, 2) && !a.is_empty() {
				// a substring of a
				let cs: Vec<char> = a.chars().collect();
				let i = rng.below(cs.len());
				let j = i + rng.below(cs.len() - i + 1);
				cs[i..j].iter().collect()
			} else {
				rand_string(&mut rng, &ALPHA, 0, 4)
			};
			pairs.push((a, b));
		}
	}
	for (a, b) in &pairs {
		g.call("findSubstr", vec![jstr(b), jstr(a)]);
		g.call("startsWith", vec![jstr(a), jstr(b)]);
		g.call("endsWith", vec![jstr(a), jstr(b)]);
		g.call("split", vec![jstr(a), jstr(b)]);
		g.call("equalsIgnoreCase", vec![jstr(a), jstr(b)]);
	}
	g.call("startsWith", vec![jstr("a"), jnum(1)]);
	g.call("endsWith", vec![jnum(1), jstr("a")]);
	g.call("findSubstr", vec![jnum(1), jstr("a")]);
	// case-insensitive compare: specials
	for _ in 0..800 * scale {
		let a = rand_string(&mut rng, &special, 0, 5);
		let b: String = a
			.chars()
			.map(|c| match rng.below(4) {
				0 => c.to_ascii_uppercase(),
				1 => c.to_ascii_lowercase(),
				2 => c,
				_ => {
					if c == 'k' { '\u{212a}' } else { c }
				}
			})
			.collect();
		g.call("equalsIgnoreCase", vec![jstr(&a), jstr(&b)]);
		g.call("equalsIgnoreCase", vec![jstr("k"), jstr("\u{212a}")]);
		g.call("equalsIgnoreCase", vec![jstr("s"), jstr("\u{17f}")]);
	}
	let step = if thorough { 1 } else { 3 };
	for (i, (a, b)) in pairs.iter().enumerate() {
		if i % step != 0 {
			continue;
		}
		for n in [-1i64, 0, 1, 2, 3, 5] {
			g.call("splitLimit", vec![jstr(a), jstr(b), jnum(n)]);
			g.call("splitLimitR", vec![jstr(a), jstr(b), jnum(n)]);
		}
		for to in ["", "a", "é😀", b.as_str()] {
			g.call("strReplace", vec![jstr(a), jstr(b), jstr(to)]);
		}
	}
	g.call("splitLimit", vec![jstr("a,b"), jstr(","), jnum(-2)]);
	g.call("splitLimitR", vec![jstr("a,b"), jstr(","), jnum(-2)]);
	g.call("splitLimit", vec![jstr("a,b"), jstr(","), jnum((1 << 53) - 1)]);
	g.call("splitLimitR", vec![jstr("a,b"), jstr(","), jnum((1 << 53) - 1)]);

	// ---- strip family: chars as string and as array (with non-char elements) ----
	for (i, (a, b)) in pairs.iter().enumerate() {
		if i % step != 0 {
			continue;
		}
		for name in ["stripChars", "lstripChars", "rstripChars"] {
			g.call(name, vec![jstr(a), jstr(b)]);
		}
		if i % (step * 4) == 0 {
			let mut arr: Vec<Value> = b.chars().map(|c| jstr(&c.to_string())).collect();
			match rng.below(4) {
				0 => arr.push(jnum(1)),
				1 => arr.push(jstr("aé")),
				2 => arr.push(jstr("")),
				_ => {}
			}
			for name in ["stripChars", "lstripChars", "rstripChars"] {
				g.call(name, vec![jstr(a), json!({ "arr": arr })]);
			}
		}
	}
	for _ in 0..600 * scale {
		let cs = rand_string(&mut rng, &ALPHA, 1, 3);
		let l = rand_string(&mut rng, &cs.chars().collect::<Vec<_>>(), 0, 3);
		let r = rand_string(&mut rng, &cs.chars().collect::<Vec<_>>(), 0, 3);
		let mid = rand_string(&mut rng, &ALPHA, 0, 6);
		let st = format!("{l}{mid}{r}");
		for name in ["stripChars", "lstripChars", "rstripChars"] {
			g.call(name, vec![jstr(&st), jstr(&cs)]);
		}
	}
	// trim: whitespace classes
	let ws: [char; 12] = [' ', '\t', '\n', '\u{b}', '\u{c}', '\r', '\u{85}', '\u{a0}', '\u{2003}', '\u{3000}', 'x', 'é'];
	for st in all_strings(&ws, 3) {
		g.call("trim", vec![jstr(&st)]);
	}

	// ---- char / codepoint ----
	for n in [
		-1i64, 0, 1, 9, 10, 65, 127, 128, 255, 256, 0x7ff, 0x800, 0xd7ff, 0xd800, 0xdbff, 0xdc00, 0xdfff,
		0xe000, 0xfffd, 0xffff, 0x10000, 0x1f600, 0x10ffff, 0x110000, 0x1fffff, 0x7fff_ffff, 0x8000_0000,
		0xffff_ffff, 0x1_0000_0000, 0x1_0000_0041, 1 << 53,
	] {
		g.call("char", vec![jnum(n)]);
	}
	for _ in 0..300 * scale {
		let n = match rng.below(3) {
			0 => rng.range(0, 0x2ff),
			1 => rng.range(0xd000, 0xe100),
			_ => rng.range(0xff00, 0x110100),
		};
		g.call("char", vec![jnum(n)]);
	}
	g.call("char", vec![jstr("a")]);

	// ---- parseInt / parseOctal / parseHex ----
	let mut nums: Vec<String> = vec![
		"", "-", "--1", "-0", "0", "00", "007", "7", "8", "9", "10", "-10", "+1", "1 ", " 1", "1e3", "0x10", "1.0",
		"1_000", "9007199254740991", "9007199254740992", "9007199254740993", "9007199254740994",
		"9007199254740995", "-9007199254740993", "18014398509481985", "18014398509481987",
		"36028797018963970", "36028797018963974", "99999999999999999999", "123456789012345678901234567890",
		"1fffffffffffff", "20000000000001", "20000000000000", "3fffffffffffff", "40000000000001",
		"40000000000003", "ffffffffffffffffffff", "FFFFFFFFFFFFFF", "377777777777777777", "400000000000000001",
		"400000000000000000", "777777777777777777777", "a", "f", "g", "A", "F", "G", "aF09", ":", ";", "<",
		"=", ">", "?", "@", "/", "`", "[", "{", "1:", "1@", "1/", "1`", "1G", "1g", "１", "٣", "1１", "é", "1é",
		"😀", "-a", "-:", "deadBEEF", "0:", "::", "7/", "78", "-7", "-8", "-f",
	]
	.into_iter()
	.map(String::from)
	.collect();
	let digs: Vec<char> = "0123456789abcdefABCDEFgG:@/`- +１é".chars().collect();
	for st in all_strings(&digs, 2) {
		nums.push(st);
	}
	for _ in 0..1500 * scale {
		let mut t = String::new();
		if rng.chance(1, 5) {
			t.push('-');
		}
		let base_digits: &[char] = match rng.below(3) {
			0 => &['0', '1', '2', '3', '4', '5', '6', '7'],
			1 => &['0', '1', '2', '3', '4', '5', '6', '7', '8', '9'],
			_ => &['0', '1', '2', '3', '4', '5', '6', '7', '8', '9', 'a', 'b', 'c', 'd', 'e', 'f', 'A', 'B', 'C', 'D', 'E', 'F'],
		};
		let n = 1 + rng.below(24);
		for _ in 0..n {
			t.push(*rng.pick(base_digits));
		}
		if rng.chance(1, 8) {
			let cs: Vec<char> = t.chars().collect();
			let i = rng.below(cs.len());
			t = cs[..i].iter().chain([*rng.pick(&digs)].iter()).chain(cs[i..].iter()).collect();
		}
		nums.push(t);
	}
	// decimal neighbours of 2^53 .. 2^56
	for k in 53..=56u32 {
		let p = 1u128 << k;
		for d in 0..=(if thorough { 40u128 } else { 12 }) {
			nums.push(format!("{}", p + d));
			nums.push(format!("{}", p - d));
			nums.push(format!("{:x}", p + d));
			nums.push(format!("{:o}", p + d));
		}
	}
	// beyond the f64 range: the fused fold overflows to +inf, which is not a jsonnet number
	let f64max = format!("{:.0}", f64::MAX);
	for st in [
		format!("1{}", "0".repeat(308)),
		format!("1{}", "0".repeat(309)),
		"9".repeat(308),
		"9".repeat(309),
		"9".repeat(400),
		format!("-{}", "9".repeat(400)),
		format!("-1{}", "0".repeat(308)),
		"f".repeat(255),
		"f".repeat(256),
		"F".repeat(300),
		format!("1{}", "0".repeat(255)),
		format!("1{}", "0".repeat(256)),
		"7".repeat(341),
		"7".repeat(342),
		format!("1{}", "0".repeat(341)),
		format!("2{}", "0".repeat(341)),
		f64max.clone(),
		format!("-{f64max}"),
		format!("{}9", &f64max[..f64max.len() - 1]),
		format!("17976931348623158{}", "0".repeat(292)),
		format!("17976931348623159{}", "0".repeat(292)),
		format!("{}x", "9".repeat(400)),
		format!("{}:", "f".repeat(300)),
		format!("+{}", "1".repeat(30)),
	] {
		nums.push(st);
	}
	for st in &nums {
		for name in ["parseInt", "parseOctal", "parseHex"] {
			g.call(name, vec![jstr(st)]);
		}
	}

	// ---- decodeUTF8 (strict and lossy) ----
	let bset: [i64; 25] = [
		0x00, 0x41, 0x7f, 0x80, 0x8f, 0x90, 0x9f, 0xa0, 0xbf, 0xc0, 0xc1, 0xc2, 0xdf, 0xe0, 0xe1, 0xec, 0xed,
		0xee, 0xef, 0xf0, 0xf1, 0xf3, 0xf4, 0xf5, 0xff,
	];
	let mut byte_arrays: Vec<Vec<i64>> = vec![vec![]];
	for a in bset {
		byte_arrays.push(vec![a]);
		for b in bset {
			byte_arrays.push(vec![a, b]);
		}
	}
	for _ in 0..2500 * scale {
		let n = 3 + rng.below(4);
		byte_arrays.push((0..n).map(|_| *rng.pick(&bset)).collect());
	}
	for _ in 0..1500 * scale {
		// valid text, then damaged
		let st = rand_string(&mut rng, &ALPHA, 1, 6);
		let mut b: Vec<i64> = st.bytes().map(i64::from).collect();
		byte_arrays.push(b.clone());
		match rng.below(4) {
			0 => {
				b.truncate(rng.below(b.len() + 1));
			}
			1 => {
				let i = rng.below(b.len());
				b[i] = *rng.pick(&bset);
			}
			2 => {
				let i = rng.below(b.len());
				b.remove(i);
			}
			_ => {
				let i = rng.below(b.len() + 1);
				b.insert(i, *rng.pick(&bset));
			}
		}
		byte_arrays.push(b);
	}
	for b in &byte_arrays {
		g.call("decodeUTF8", vec![jbytes(b), json!({"bool": false})]);
		g.call("decodeUTF8", vec![jbytes(b), json!({"bool": true})]);
		if b.len() <= 4 || rng.chance(1, 4) {
			g.call("base64", vec![jbytes(b)]);
		}
	}
	for bad in [vec![256i64], vec![-1], vec![65, 256], vec![65, -1, 66]] {
		g.call("decodeUTF8", vec![jbytes(&bad), json!({"bool": false})]);
		g.call("decodeUTF8", vec![jbytes(&bad), json!({"bool": true})]);
		g.call("base64", vec![jbytes(&bad)]);
	}
	g.call("decodeUTF8", vec![json!({"arr": [jstr("a")]}), json!({"bool": true})]);

	// ---- base64 decode ----
	let b64: Vec<char> = "AQZagz09+/=-_ \n".chars().collect();
	let mut b64s = all_strings(&b64, if thorough { 4 } else { 3 });
	for _ in 0..2500 * scale {
		// a correct encoding, sometimes damaged
		let n = rng.below(8);
		let bytes: Vec<u8> = (0..n).map(|_| rng.below(256) as u8).collect();
		let mut e = b64_ref(&bytes);
		b64s.push(e.clone());
		if rng.chance(1, 2) && !e.is_empty() {
			let cs: Vec<char> = e.chars().collect();
			let i = rng.below(cs.len());
			e = match rng.below(3) {
				0 => cs[..i].iter().chain(cs[i + 1..].iter()).collect(),
				1 => cs[..i].iter().chain([*rng.pick(&b64)].iter()).chain(cs[i + 1..].iter()).collect(),
				_ => cs[..i].iter().chain([*rng.pick(&b64)].iter()).chain(cs[i..].iter()).collect(),
			};
			b64s.push(e);
		}
		// text payloads
		let t = rand_string(&mut rng, &ALPHA, 0, 5);
		b64s.push(b64_ref(t.as_bytes()));
	}
	// every value of the final sextet with one and two padding characters (non-canonical trailing bits)
	for c in "ABCDEFGHIJKLMNOPQRSTUVWXYZabcdefghijklmnopqrstuvwxyz0123456789+/".chars() {
		b64s.push(format!("A{c}=="));
		b64s.push(format!("AA{c}="));
		b64s.push(format!("AAA{c}"));
	}
	b64s.push("é===".into());
	b64s.push("AAé=".into());
	for st in &b64s {
		g.call("base64Decode", vec![jstr(st)]);
		g.call("base64DecodeBytes", vec![jstr(st)]);
	}

	// ---- hashes (python hashlib) and parsers (python json / PyYAML): observation ----
	let mut hash_in: Vec<String> = all_strings(&ALPHA, 2);
	for _ in 0..120 * scale {
		hash_in.push(rand_string(&mut rng, &ALPHA, 3, 12));
	}
	hash_in.push("a".repeat(55));
	hash_in.push("a".repeat(56));
	hash_in.push("a".repeat(64));
	hash_in.push("é".repeat(72));
	hash_in.push("😀".repeat(36));
	hash_in.push("abc".repeat(100));
	for st in &hash_in {
		for name in ["md5", "sha1", "sha256", "sha512", "sha3"] {
			g.ext(name, vec![jstr(st)]);
		}
	}
	for i in 0..3000 * scale {
		let yaml = i % 2 == 1;
		let doc = json_doc(&mut rng, 3, yaml);
		if yaml {
			g.ext("parseYaml", vec![jstr(&doc)]);
		}
		g.ext("parseJson", vec![jstr(&doc)]);
	}
	for bad in ["", "{", "[1,]", "{\"a\":1,}", "nul", "01", "1 2", "\"\\x\"", "[1] x", "'a'", "[", "tru", "{\"a\" 1}", "{1:2}", "\"a", "[1 2]", "-", "1.", ".5", "+1", "0x10", "\t1\n", " [ ] ", "\u{feff}1"] {
		g.ext("parseJson", vec![jstr(bad)]);
	}

	// ---- std.parseJson accepts exactly: ws value ws (independent RFC 8259 reader in Lean) ----
	{
		let tails: [&str; 26] = [
			"", " ", "\n", "\t\r\n ", " x", "x", ",", "]", "}", " 1", "1", " null", "null", "\"", " \"a\"", "//c", " /*c*/",
			"\u{0}", "\u{a0}", "\u{feff}", "\u{c}", "\u{b}", " []", "{}", ":", "\u{2028}",
		];
		let heads: [&str; 8] = ["", " ", "\n\t", "\u{feff}", "\u{c}", "x", ",", "\u{a0}"];
		let mut texts: Vec<String> = Vec::new();
		for i in 0..700 * scale {
			let doc = json_doc(&mut rng, 2, false);
			if doc.len() > 120 {
				continue;
			}
			texts.push(doc.clone());
			let t = *rng.pick(&tails);
			let h = if rng.chance(1, 4) { *rng.pick(&heads) } else { "" };
			texts.push(format!("{h}{doc}{t}"));
			if i % 3 == 0 {
				// damage: delete / duplicate / replace one character
				let cs: Vec<char> = doc.chars().collect();
				if !cs.is_empty() {
					let k = rng.below(cs.len());
					let repl: [char; 10] = [',', ':', '"', ']', '}', '[', '{', ' ', '0', '\\'];
					let t: String = match rng.below(3) {
						0 => cs[..k].iter().chain(cs[k + 1..].iter()).collect(),
						1 => cs[..=k].iter().chain(cs[k..].iter()).collect(),
						_ => cs[..k].iter().chain([*rng.pick(&repl)].iter()).chain(cs[k + 1..].iter()).collect(),
					};
					texts.push(t);
				}
			}
		}
		for v in ["1", "[1]", "{\"a\":1}", "\"s\"", "null", "true", "-0", "1.5e3", "[]", "{}"] {
			for t in tails {
				texts.push(format!("{v}{t}"));
			}
			for h in heads {
				texts.push(format!("{h}{v}"));
			}
		}
		for bad in ["", "{", "[1,]", "{\"a\":1,}", "nul", "01", "1 2", "\"\\x\"", "[1] x", "'a'", "[", "tru", "{\"a\" 1}", "{1:2}", "\"a", "[1 2]", "-", "1.", ".5", "+1", "0x10", "\t1\n", " [ ] ", "\u{feff}1", "1e", "1e+", "-01", "1.e1", "\"\\ud800\"", "\"\\ud800\\u0041\"", "\"\\udc00\"", "\"\\ud83d\\ude00\"", "\"\u{1}\"", "\"\t\"", "[[[[[[[[[[1]]]]]]]]]]", "1e400", "-1e400", "1e-400", "NaN", "Infinity", "[1,,2]", "{\"a\":1 \"b\":2}", "{\"a\":1,\"a\":2}", "nullx", "truefalse", "1true", "\"a\"\"b\""] {
			texts.push(bad.to_string());
		}
		let mut n_json = 0usize;
		let mut n_acc = 0usize;
		let mut seen_t = std::collections::HashSet::new();
		for t in &texts {
			if !seen_t.insert(t.clone()) {
				continue;
			}
			let ans = call(&g.funs["parseJson"], &[jstr(t)]);
			let out = if ans.get("panic").is_some() {
				g.panics += 1;
				ans
			} else {
				let acc = ans.get("ok").is_some();
				if acc {
					n_acc += 1;
				}
				json!({ "accept": acc })
			};
			let bytes: Vec<Value> = t.bytes().map(|b| json!(b)).collect();
			g.w.case(json!({"op": "str.json", "fn": "parseJson", "b": bytes, "_text": t.escape_default().to_string(), "size": t.len()}), out);
			n_json += 1;
		}
		g.hist.insert("parseJson(accept/reject vs Lean reader)".into(), n_json);
		g.hist.insert("parseJson(accepted)".into(), n_acc);
	}

	// ---- std.trace's debug format: long strings inside a value are shortened on bytes ----
	let mut longs: Vec<String> = Vec::new();
	for k in 0..4 {
		longs.push(format!("{}{}", "a".repeat(k), "é".repeat(200)));
		longs.push(format!("{}{}", "a".repeat(k), "→".repeat(100)));
		longs.push(format!("{}{}", "a".repeat(k), "😀".repeat(70)));
		longs.push(format!("{}{}", "a".repeat(k), "é".repeat(127)));
		longs.push(format!("{}{}{}", "a".repeat(k), "é".repeat(126), "a".repeat(4 - k)));
	}
	longs.push("a".repeat(256));
	longs.push("a".repeat(257));
	longs.push("\"\n".repeat(129));
	for _ in 0..150 * scale {
		longs.push(rand_string(&mut rng, &ALPHA, 60, 200));
	}
	let mut n_trunc = 0usize;
	for st in &longs {
		let v = Val::Arr(ArrValue::lazy(vec![Thunk::evaluated(Val::string(st.clone()))]));
		let r = guarded(|| v.manifest(jrsonnet_evaluator::manifest::JsonFormat::debug()));
		let ans = match r {
			Ok(Ok(text)) => json!({"ok": jstr(&text)}),
			Ok(Err(e)) => json!({"err": 1, "_msg": format!("{}", e.error())}),
			Err(p) => json!({"panic": 1, "_msg": p}),
		};
		if ans.get("panic").is_some() {
			g.panics += 1;
		}
		g.w.case(json!({"op": "dbg.trunc", "fn": "trace", "v": jstr(st), "size": st.chars().count()}), ans);
		n_trunc += 1;
	}
	g.hist.insert("trace(debug format)".into(), n_trunc);

	let Gen { w, hist, lens, nonascii, errs, panics, .. } = g;
	let n = w.n;
	w.finish(
		json!({
			"engine": "c11", "cases": n, "per_function": hist, "string_arg_length_histogram": lens,
			"string_args_with_non_ascii": nonascii, "error_answers": errs, "panics": panics,
			"rule": "every listed std string/codec/parser builtin called in-process with Val arguments: all strings of length 0..3 (thorough 0..4) over {a,B,space,é,ß,→,😀,U+0301,','} plus sampled lengths up to 12 and a pool of function-specific special characters; pattern/separator pairs incl. overlapping and partial-byte-overlap patterns; offsets/counts 0..len+2, negative and 2^53-1; byte arrays over all UTF-8 lead/continuation classes of length 0..2 exhaustive and 3..6 sampled plus damaged valid text; base64 texts exhaustive to length 3 over a 15-symbol set plus damaged correct encodings and all final sextets; numeric strings around 2^53..2^56 in bases 8/10/16 and all 2-character strings over digit-boundary characters, digit strings of 255..400 digits around the f64 range; std.parseJson accept/reject on generated documents with whitespace/junk heads and tails and single-character damage"
		}),
		&opts.out,
	);
}

/// reference base64 encoder, used only to GENERATE inputs for the decoder cases
fn b64_ref(b: &[u8]) -> String {
	const T: &[u8; 64] = b"ABCDEFGHIJKLMNOPQRSTUVWXYZabcdefghijklmnopqrstuvwxyz0123456789+/";
	let mut out = String::new();
	for ch in b.chunks(3) {
		let n = (u32::from(ch[0]) << 16) | (u32::from(*ch.get(1).unwrap_or(&0)) << 8) | u32::from(*ch.get(2).unwrap_or(&0));
		out.push(T[(n >> 18) as usize & 63] as char);
		out.push(T[(n >> 12) as usize & 63] as char);
		out.push(if ch.len() > 1 { T[(n >> 6) as usize & 63] as char } else { '=' });
		out.push(if ch.len() > 2 { T[n as usize & 63] as char } else { '=' });
	}
	out
}
