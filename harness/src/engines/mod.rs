use crate::common::Opts;

pub mod c08;

pub fn run(engine: &str, opts: &Opts) -> bool {
	match engine {
		"c08" => c08::run(opts),
		_ => return false,
	}
	true
}
