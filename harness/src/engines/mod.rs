use crate::common::Opts;

pub mod c01;
pub mod c02;
pub mod c03;
pub mod c04;
pub mod c05;
pub mod c06;
pub mod c07;
pub mod c08;
pub mod c09;
pub mod c10;
pub mod c11;
pub mod c12;
pub mod c13;
pub mod c14;
pub mod c15;
pub mod c16;
pub mod c17;
pub mod c18;
pub mod c19;
pub mod c20;

/// engine names: "cNN" or "cNN<suffix>" (an engine file may serve several sub-engines through
/// `opts.engine`)
pub fn run(engine: &str, opts: &Opts) -> bool {
	match &engine[..engine.len().min(3)] {
		"c01" => c01::run(opts),
		"c02" => c02::run(opts),
		"c03" => c03::run(opts),
		"c04" => c04::run(opts),
		"c05" => c05::run(opts),
		"c06" => c06::run(opts),
		"c07" => c07::run(opts),
		"c08" => c08::run(opts),
		"c09" => c09::run(opts),
		"c10" => c10::run(opts),
		"c11" => c11::run(opts),
		"c12" => c12::run(opts),
		"c13" => c13::run(opts),
		"c14" => c14::run(opts),
		"c15" => c15::run(opts),
		"c16" => c16::run(opts),
		"c17" => c17::run(opts),
		"c18" => c18::run(opts),
		"c19" => c19::run(opts),
		"c20" => c20::run(opts),
		_ => return false,
	}
	true
}
