/* C15 — driver for the real libjsonnet C interface (bindings/c/libjsonnet.h).
 *
 * usage: c15_capi <script>
 * The script is a list of lines `cmd [arg ...]`; string arguments are hex encoded (`-` = empty).
 *   jpath H | extvar H H | extcode H H | tlavar H H | tlacode H H | maxstack N | stringout N
 *   native                      registers nativeAdd(a,b) nativeCat(a,b) nativeFail(a) nativeMk(a)
 *   importcb H                  installs an import callback serving files below directory H
 *   file H MODE | snippet H H MODE      MODE = plain | multi | stream
 *   newvm                       jsonnet_destroy + jsonnet_make: the following commands address a new VM
 * A script may hold any number of evaluations and settings changes in any order: they all address
 * the same VM (histories).
 * Every evaluation prints one line  `R <error flag> <hex of the bytes a C consumer reads>`:
 * for plain results and errors the NUL terminated string, for multi/stream results the
 * double-NUL framed list walked exactly like the reference consumer does (key, value, ... until an
 * empty key / until an empty element), terminator included.
 */
#include <stdio.h>
#include <stdlib.h>
#include <string.h>

#include "libjsonnet.h"

/* symbols the default `interop-wasm` feature of the crate leaves undefined */
int _jrsonnet_static_import_callback(void *ctx, const char *base, const char *rel, char **found_here,
                                     char **buf, size_t *buflen) {
    (void)ctx; (void)base; (void)rel; (void)found_here; (void)buf; (void)buflen;
    return 1;
}
struct JsonnetJsonValue *_jrsonnet_static_native_callback(void *ctx,
                                                          const struct JsonnetJsonValue *const *argv,
                                                          int *success) {
    (void)ctx; (void)argv; (void)success;
    return NULL;
}

static struct JsonnetVm *vm;

static int hexval(int c) {
    if (c >= '0' && c <= '9') return c - '0';
    if (c >= 'a' && c <= 'f') return c - 'a' + 10;
    return -1;
}
static char *unhex(const char *h) {
    if (h == NULL || strcmp(h, "-") == 0) {
        char *e = malloc(1);
        e[0] = 0;
        return e;
    }
    size_t n = strlen(h) / 2;
    char *out = malloc(n + 1);
    for (size_t i = 0; i < n; i++) out[i] = (char)(hexval(h[2 * i]) * 16 + hexval(h[2 * i + 1]));
    out[n] = 0;
    return out;
}
static void puthex(const char *p, size_t n) {
    if (n == 0) {
        fputs("-", stdout);
        return;
    }
    for (size_t i = 0; i < n; i++) printf("%02x", (unsigned char)p[i]);
}

/* ---- native callbacks ---- */
static struct JsonnetJsonValue *native_add(void *ctx, const struct JsonnetJsonValue *const *argv,
                                           int *success) {
    (void)ctx;
    double a = 0, b = 0;
    if (!jsonnet_json_extract_number(vm, argv[0], &a) || !jsonnet_json_extract_number(vm, argv[1], &b)) {
        *success = 0;
        return jsonnet_json_make_string(vm, "nativeAdd: not a number");
    }
    *success = 1;
    return jsonnet_json_make_number(vm, a + b);
}
static struct JsonnetJsonValue *native_cat(void *ctx, const struct JsonnetJsonValue *const *argv,
                                           int *success) {
    (void)ctx;
    const char *a = jsonnet_json_extract_string(vm, argv[0]);
    const char *b = jsonnet_json_extract_string(vm, argv[1]);
    if (a == NULL || b == NULL) {
        *success = 0;
        return jsonnet_json_make_string(vm, "nativeCat: not a string");
    }
    char *s = malloc(strlen(a) + strlen(b) + 1);
    strcpy(s, a);
    strcat(s, b);
    *success = 1;
    return jsonnet_json_make_string(vm, s);
}
static struct JsonnetJsonValue *native_fail(void *ctx, const struct JsonnetJsonValue *const *argv,
                                            int *success) {
    (void)ctx; (void)argv;
    *success = 0;
    return jsonnet_json_make_string(vm, "native failure");
}
static struct JsonnetJsonValue *native_mk(void *ctx, const struct JsonnetJsonValue *const *argv,
                                          int *success) {
    (void)ctx;
    double a = 0;
    int isnum = jsonnet_json_extract_number(vm, argv[0], &a);
    struct JsonnetJsonValue *arr = jsonnet_json_make_array(vm);
    struct JsonnetJsonValue *e1 = isnum ? jsonnet_json_make_number(vm, a * 2) : jsonnet_json_make_null(vm);
    struct JsonnetJsonValue *e2 = jsonnet_json_make_bool(vm, jsonnet_json_extract_bool(vm, argv[0]) == 2);
    struct JsonnetJsonValue *e3 = jsonnet_json_make_bool(vm, jsonnet_json_extract_null(vm, argv[0]));
    jsonnet_json_array_append(vm, arr, e1);
    jsonnet_json_array_append(vm, arr, e2);
    jsonnet_json_array_append(vm, arr, e3);
    struct JsonnetJsonValue *obj = jsonnet_json_make_object(vm);
    jsonnet_json_object_append(vm, obj, "k", arr);
    struct JsonnetJsonValue *s = jsonnet_json_make_string(vm, "v");
    jsonnet_json_object_append(vm, obj, "s", s);
    *success = 1;
    return obj;
}

/* ---- import callback: serve <root>/<rel> (base ignored: flat tree) ---- */
static int import_cb(void *ctx, const char *base, const char *rel, char **found_here, char **buf,
                     size_t *buflen) {
    (void)base;
    const char *root = ctx;
    size_t n = strlen(root) + strlen(rel) + 2;
    char *path = jsonnet_realloc(vm, NULL, n);
    snprintf(path, n, "%s/%s", root, rel);
    FILE *f = fopen(path, "rb");
    if (f == NULL) {
        const char *msg = "callback: no such file";
        *buf = jsonnet_realloc(vm, NULL, strlen(msg));
        memcpy(*buf, msg, strlen(msg));
        *buflen = strlen(msg);
        return 1;
    }
    fseek(f, 0, SEEK_END);
    long sz = ftell(f);
    fseek(f, 0, SEEK_SET);
    *buf = jsonnet_realloc(vm, NULL, sz > 0 ? (size_t)sz : 1);
    *buflen = fread(*buf, 1, (size_t)sz, f);
    fclose(f);
    *found_here = path;
    return 0;
}

static void report(int err, const char *out, const char *mode) {
    size_t n;
    if (err || strcmp(mode, "plain") == 0) {
        n = strlen(out) + 1;
    } else if (strcmp(mode, "multi") == 0) {
        size_t pos = 0;
        for (;;) {
            size_t k = strlen(out + pos);
            pos += k + 1;
            if (k == 0) break;
            pos += strlen(out + pos) + 1;
        }
        n = pos;
    } else {
        size_t pos = 0;
        for (;;) {
            size_t k = strlen(out + pos);
            pos += k + 1;
            if (k == 0) break;
        }
        n = pos;
    }
    printf("R %d ", err);
    puthex(out, n);
    printf("\n");
    fflush(stdout);
}

int main(int argc, char **argv) {
    if (argc != 2) {
        fprintf(stderr, "usage: c15_capi <script>\n");
        return 2;
    }
    FILE *f = fopen(argv[1], "r");
    if (f == NULL) return 2;
    vm = jsonnet_make();
    static char line[1 << 20];
    while (fgets(line, sizeof line, f)) {
        char *tok[4] = {0, 0, 0, 0};
        int nt = 0;
        for (char *p = strtok(line, " \n"); p && nt < 4; p = strtok(NULL, " \n")) tok[nt++] = p;
        if (nt == 0) continue;
        const char *c = tok[0];
        if (!strcmp(c, "jpath")) {
            jsonnet_jpath_add(vm, unhex(tok[1]));
        } else if (!strcmp(c, "extvar")) {
            jsonnet_ext_var(vm, unhex(tok[1]), unhex(tok[2]));
        } else if (!strcmp(c, "extcode")) {
            jsonnet_ext_code(vm, unhex(tok[1]), unhex(tok[2]));
        } else if (!strcmp(c, "tlavar")) {
            jsonnet_tla_var(vm, unhex(tok[1]), unhex(tok[2]));
        } else if (!strcmp(c, "tlacode")) {
            jsonnet_tla_code(vm, unhex(tok[1]), unhex(tok[2]));
        } else if (!strcmp(c, "maxstack")) {
            jsonnet_max_stack(vm, (unsigned)atoi(tok[1]));
        } else if (!strcmp(c, "stringout")) {
            jsonnet_string_output(vm, atoi(tok[1]));
        } else if (!strcmp(c, "native")) {
            static const char *p2[3] = {"a", "b", NULL};
            static const char *p1[2] = {"a", NULL};
            jsonnet_native_callback(vm, "nativeAdd", native_add, NULL, p2);
            jsonnet_native_callback(vm, "nativeCat", native_cat, NULL, p2);
            jsonnet_native_callback(vm, "nativeFail", native_fail, NULL, p1);
            jsonnet_native_callback(vm, "nativeMk", native_mk, NULL, p1);
        } else if (!strcmp(c, "newvm")) {
            jsonnet_destroy(vm);
            vm = jsonnet_make();
        } else if (!strcmp(c, "importcb")) {
            jsonnet_import_callback(vm, import_cb, unhex(tok[1]));
        } else if (!strcmp(c, "file")) {
            int err = 7;
            const char *mode = tok[2];
            char *path = unhex(tok[1]);
            char *out = !strcmp(mode, "multi")    ? jsonnet_evaluate_file_multi(vm, path, &err)
                        : !strcmp(mode, "stream") ? jsonnet_evaluate_file_stream(vm, path, &err)
                                                  : jsonnet_evaluate_file(vm, path, &err);
            report(err, out, mode);
        } else if (!strcmp(c, "snippet")) {
            int err = 7;
            const char *mode = tok[3];
            char *name = unhex(tok[1]);
            char *code = unhex(tok[2]);
            char *out = !strcmp(mode, "multi")    ? jsonnet_evaluate_snippet_multi(vm, name, code, &err)
                        : !strcmp(mode, "stream") ? jsonnet_evaluate_snippet_stream(vm, name, code, &err)
                                                  : jsonnet_evaluate_snippet(vm, name, code, &err);
            report(err, out, mode);
        } else {
            fprintf(stderr, "unknown command %s\n", c);
            return 2;
        }
    }
    return 0;
}
