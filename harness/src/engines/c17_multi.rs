//! C17 — traces whose frames live in DIFFERENT files.
//!
//! * planted multi-file programs: a main file importing one or two library files; the failing
//!   construct in the library and the calling/importing expression in the importer are padded
//!   (comments, blank lines, CRLF, multi-byte characters, spaces) so that their spans have
//!   IDENTICAL start/end byte offsets in their respective files while sitting on different
//!   lines/columns → `loc.mstart` (per-file reference start line/column of every frame);
//! * synthetic traces over several virtual sources with shared spans, rendered by `CompactFormat`
//!   → `loc.trace` (whole output vs the `writeTrace` model) + `loc.mstart`;
//!   rendered by `JsFormat` → `loc.js`; by `HiDocFormat` → `loc.mstart` (observation);
//! * `ImportSyntaxError` with an arbitrary offset rendered by `CompactFormat` → `loc.synerr`.
use std::{collections::BTreeMap, path::Path};

use jrsonnet_evaluator::{
	error::{Error, ErrorKind, StackTraceElement},
	trace::{CompactFormat, HiDocFormat, JsFormat, PathResolver, TraceFormat},
	State, SyntaxError, SyntaxErrorLocation,
};
use jrsonnet_ir::{Source, Span};
use serde_json::{json, Value};

use super::{boundaries, cps, gen_text, parse_start, start_json, FILLER, LINE_PREFIX, SUFFIX};
use crate::common::{guarded, CaseWriter, Rng};

pub struct MFile {
	pub name: &'static str,
	pub text: String,
	/// (frame description, byte offset of the frame's span start, byte length of the span)
	pub expect: Vec<(String, usize, usize)>,
}

pub struct Multi {
	/// files[0] is the main file
	pub files: Vec<MFile>,
	pub kind: &'static str,
	pub collide: bool,
	pub pad_kinds: Vec<&'static str>,
}

/// exactly `d` bytes of trivia that may stand at the start of a line between two tokens
pub fn pad_text(rng: &mut Rng, d: usize) -> (String, &'static str) {
	if d == 0 {
		return (String::new(), "none");
	}
	for _ in 0..8 {
		match rng.below(7) {
			0 => return (" ".repeat(d), "spaces"),
			1 => return ("\n".repeat(d), "blank-lines"),
			2 if d >= 3 => return (format!("//{}\n", "x".repeat(d - 3)), "line-comment"),
			3 if d >= 5 => {
				let k = (d - 3) / 2;
				let r = (d - 3) % 2;
				return (format!("# {}{}\n", "é".repeat(k), "z".repeat(r)), "multibyte-comment");
			}
			4 if d >= 4 => return (format!("/*{}*/", "y".repeat(d - 4)), "block-comment-same-line"),
			5 if d >= 2 => return (format!("{}{}", "\r\n".repeat(d / 2), " ".repeat(d % 2)), "crlf"),
			6 if d >= 8 => {
				// 😀 is 4 bytes: "/*" + k*4 + r + "*/\n"
				let k = (d - 5) / 4;
				let r = (d - 5) % 4;
				return (format!("/*{}{}*/\n", "😀".repeat(k), "w".repeat(r)), "emoji-comment");
			}
			_ => {}
		}
	}
	(" ".repeat(d), "spaces")
}

fn fillers(rng: &mut Rng, max: usize, n0: &mut usize) -> String {
	let mut s = String::new();
	for _ in 0..rng.below(max + 1) {
		s.push_str(&rng.pick(FILLER).replace("%d", &format!("{}", *n0)));
		*n0 += 1;
	}
	s
}

/// a file under construction: everything before the pad slot, and everything from the start of
/// the construct's own line on; `pre` = bytes of `tail` before the construct
struct Draft {
	name: &'static str,
	head: String,
	tail: String,
	pre: usize,
	len: usize,
	desc: String,
}
impl Draft {
	fn natural(&self) -> usize {
		self.head.len() + self.pre
	}
}

/// `import_of(k)` = the string by which file k (1 = liba, 2 = libb) is imported from file k-1
pub fn gen_multi(rng: &mut Rng, kind: usize, import_main: &str) -> Multi {
	let mut n = 0usize;
	let nl = |rng: &mut Rng| if rng.chance(1, 4) { "\r\n" } else { "\n" };
	let args5 = |rng: &mut Rng, v: &str| -> String {
		match rng.below(3) {
			0 => format!("( {v} )"),
			1 => format!("({v}  )"),
			_ => format!("(  {v})"),
		}
	};
	let mut drafts: Vec<Draft> = Vec::new();
	let kname;
	match kind % 3 {
		0 => {
			kname = "error-in-lib/call-in-main";
			// main
			let mut head = fillers(rng, 4, &mut n);
			head.push_str(&format!("local lib = import \"{import_main}\";{}", nl(rng)));
			head.push_str(&fillers(rng, 2, &mut n));
			let prefix = *rng.pick(LINE_PREFIX);
			let mut tail = format!("{prefix}lib.boom");
			let pre = tail.len();
			tail.push_str(&args5(rng, "1"));
			tail.push_str(*rng.pick(SUFFIX));
			drafts.push(Draft { name: "main.jsonnet", head, tail, pre, len: 5, desc: "function <boom> call".into() });
			// lib
			let head = fillers(rng, 5, &mut n);
			let prefix = *rng.pick(LINE_PREFIX);
			let mut tail = format!("{prefix}{{ boom(x): ");
			if rng.chance(1, 3) {
				// the construct moves to a line of its own: the pad slot stays before the `{` line
				tail.push_str(nl(rng));
				tail.push_str("    ");
			}
			let pre = tail.len();
			tail.push_str("error 'in lib é' }");
			tail.push_str(*rng.pick(SUFFIX));
			drafts.push(Draft { name: "liba.libsonnet", head, tail, pre, len: 5, desc: "error statement".into() });
		}
		1 => {
			kname = "assert-in-lib/import-in-main";
			let head = fillers(rng, 4, &mut n);
			let prefix = *rng.pick(LINE_PREFIX);
			let mut tail = format!("{prefix}local a = ");
			let pre = tail.len();
			tail.push_str(&format!("import \"{import_main}\"; a"));
			tail.push_str(*rng.pick(SUFFIX));
			drafts.push(Draft {
				name: "main.jsonnet",
				head,
				tail,
				pre,
				len: 6,
				desc: format!("import {import_main:?}"),
			});
			let head = fillers(rng, 5, &mut n);
			let prefix = *rng.pick(LINE_PREFIX);
			let mut tail = format!("{prefix}assert ");
			if rng.chance(1, 3) {
				tail.push_str(nl(rng));
				tail.push_str("  ");
			}
			let pre = tail.len();
			tail.push_str("1 == 2 : 'mé'; { }");
			tail.push_str(*rng.pick(SUFFIX));
			drafts.push(Draft { name: "liba.libsonnet", head, tail, pre, len: 6, desc: "assertion failure".into() });
		}
		_ => {
			kname = "error-in-libb/call-in-liba/call-in-main";
			let mut head = fillers(rng, 3, &mut n);
			head.push_str(&format!("local l1 = import \"{import_main}\";{}", nl(rng)));
			head.push_str(&fillers(rng, 2, &mut n));
			let prefix = *rng.pick(LINE_PREFIX);
			let mut tail = format!("{prefix}l1.f");
			let pre = tail.len();
			tail.push_str(&args5(rng, "1"));
			tail.push_str(*rng.pick(SUFFIX));
			drafts.push(Draft { name: "main.jsonnet", head, tail, pre, len: 5, desc: "function <f> call".into() });

			let mut head = fillers(rng, 3, &mut n);
			head.push_str(&format!("local l2 = import \"libb.libsonnet\";{}", nl(rng)));
			head.push_str(&fillers(rng, 2, &mut n));
			let prefix = *rng.pick(LINE_PREFIX);
			let mut tail = format!("{prefix}{{ f(x): l2.g");
			let pre = tail.len();
			tail.push_str(&args5(rng, "x"));
			tail.push_str(" }");
			tail.push_str(*rng.pick(SUFFIX));
			drafts.push(Draft { name: "liba.libsonnet", head, tail, pre, len: 5, desc: "function <g> call".into() });

			let head = fillers(rng, 5, &mut n);
			let prefix = *rng.pick(LINE_PREFIX);
			let mut tail = format!("{prefix}{{ g(x): ");
			if rng.chance(1, 3) {
				tail.push_str(nl(rng));
				tail.push_str("\t");
			}
			let pre = tail.len();
			tail.push_str("error 'deep é' }");
			tail.push_str(*rng.pick(SUFFIX));
			drafts.push(Draft { name: "libb.libsonnet", head, tail, pre, len: 5, desc: "error statement".into() });
		}
	}
	// one case in six keeps the natural (different) offsets as a control
	let collide = !rng.chance(1, 6);
	let target = drafts.iter().map(Draft::natural).max().unwrap_or(0) + rng.below(7);
	let mut files = Vec::new();
	let mut pad_kinds = Vec::new();
	for d in drafts {
		let need = if collide { target - d.natural() } else { 0 };
		let (pad, pk) = pad_text(rng, need);
		pad_kinds.push(pk);
		let at = d.head.len() + pad.len() + d.pre;
		let text = format!("{}{}{}", d.head, pad, d.tail);
		files.push(MFile { name: d.name, text, expect: vec![(d.desc, at, d.len)] });
	}
	if collide {
		let a0 = files[0].expect[0].1;
		assert!(files.iter().all(|f| f.expect[0].1 == a0), "offsets were made equal");
	}
	Multi { files, kind: kname, collide, pad_kinds }
}

pub fn write_files(dir: &Path, m: &Multi) {
	std::fs::create_dir_all(dir).expect("mkdir");
	for f in &m.files {
		std::fs::write(dir.join(f.name), &f.text).expect("write");
	}
}

/// lines of a rendered compact trace → (label index, location text, description)
pub fn frames_by_label(rendered: &str, labels: &[String]) -> Vec<(usize, String, String)> {
	let mut out = Vec::new();
	for line in rendered.lines().skip(1) {
		let t = line.trim_start();
		let mut best: Option<(usize, usize)> = None;
		for (k, l) in labels.iter().enumerate() {
			if let Some(i) = t.find(l.as_str()) {
				if best.map_or(true, |b| i < b.1) {
					best = Some((k, i));
				}
			}
		}
		if let Some((k, i)) = best {
			let rest = &t[i + labels[k].len()..];
			let (loc, desc) = match rest.find(' ') {
				Some(j) => (&rest[..j], rest[j..].trim_start()),
				None => (rest, ""),
			};
			out.push((k, loc.trim_end_matches(':').to_string(), desc.to_string()));
		}
	}
	out
}

pub fn mstart_op(m: &Multi, via: &str) -> Value {
	let files: Vec<Value> = m
		.files
		.iter()
		.map(|f| json!({"text": cps(&f.text), "at": f.expect.iter().map(|e| e.1).collect::<Vec<_>>(), "_name": f.name, "_src": f.text}))
		.collect();
	let size: usize = m.files.iter().map(|f| f.text.chars().count()).sum();
	json!({"op":"loc.mstart","via":via,"kind":m.kind,"collide":m.collide,"files":files,"size":size})
}

pub fn mstart_answer(m: &Multi, rendered: &str, labels: &[String]) -> Value {
	let fr = frames_by_label(rendered, labels);
	let starts: Vec<Vec<Value>> = m
		.files
		.iter()
		.enumerate()
		.map(|(k, f)| {
			f.expect
				.iter()
				.map(|(d, at, _)| {
					let got = fr.iter().find(|x| x.0 == k && x.2 == *d).and_then(|x| parse_start(&x.1));
					start_json(&f.text, *at, got)
				})
				.collect()
		})
		.collect();
	json!({"start": starts, "_rendered": rendered})
}

fn compact() -> CompactFormat {
	CompactFormat { resolver: PathResolver::FileName, max_trace: 20, padding: 4 }
}

/// number of pairs of frames of DIFFERENT sources with identical (start, end) offsets
fn real_collisions(e: &Error) -> usize {
	let v: Vec<&Span> = e.trace().0.iter().filter_map(|x| x.location.as_ref()).collect();
	let mut n = 0;
	for i in 0..v.len() {
		for j in i + 1..v.len() {
			if v[i].1 == v[j].1 && v[i].2 == v[j].2 && v[i].0 != v[j].0 {
				n += 1;
			}
		}
	}
	n
}

/// strips `ESC [ … m`
fn strip_ansi(s: &str) -> String {
	let mut out = String::new();
	let mut it = s.chars().peekable();
	while let Some(c) = it.next() {
		if c == '\u{1b}' && it.peek() == Some(&'[') {
			for d in it.by_ref() {
				if d == 'm' {
					break;
				}
			}
		} else {
			out.push(c);
		}
	}
	out
}

/// HiDoc rendering → per annotated description: (section index, line number, column of the first
/// highlighted character): the annotation line carries the description in the colour of the span.
/// Observation only; returns what could be recognised.
pub fn hidoc_marks(rendered: &str) -> Vec<(usize, String, u64, u64)> {
	// colour → description, per section; then source lines `N  │ text` with coloured segments
	let mut out = Vec::new();
	let mut section = 0usize;
	let mut pending: Vec<(String, String)> = Vec::new(); // (colour, desc) seen above a source line
	for raw in rendered.lines().skip(1) {
		if raw.starts_with("...at ") {
			section += 1;
			pending.clear();
			continue;
		}
		let plain = strip_ansi(raw);
		let Some(bar) = plain.find('│') else {
			// annotation line: "   ·   ╭──── desc" ; the desc follows the last box-drawing run
			if let Some(i) = raw.rfind("\u{1b}[0m ") {
				let desc = raw[i + 5..].to_string();
				// colour = last "38;2;r;g;b" before i
				if let Some(c0) = raw[..i].rfind("\u{1b}[38;2;") {
					let col: String = raw[c0..].chars().take_while(|c| *c != 'm').collect();
					pending.push((col, desc));
				}
			}
			continue;
		};
		let num: String = plain[..bar].trim().to_string();
		let Ok(line_no) = num.parse::<u64>() else { continue };
		// content of the raw line after the gutter: find "│ " then the reset
		let Some(g) = raw.find("│ \u{1b}[0m") else { continue };
		let content = &raw[g + "│ \u{1b}[0m".len()..];
		for (col, desc) in pending.drain(..) {
			if let Some(i) = content.find(&format!("{col}m")) {
				let before = strip_ansi(&content[..i]);
				out.push((section, desc, line_no, before.chars().count() as u64 + 1));
			} else {
				out.push((section, desc, 0, 0));
			}
		}
	}
	out
}

pub fn run_multi(w: &mut CaseWriter, rng: &mut Rng, out: &Path, thorough: bool, hist: &mut BTreeMap<String, usize>) {
	let base = out.join("mf");
	std::fs::create_dir_all(&base).expect("mkdir");
	let mut b = State::builder();
	b.context_initializer(jrsonnet_stdlib::ContextInitializer::new(PathResolver::new_cwd_fallback()))
		.import_resolver(jrsonnet_evaluator::FileImportResolver::new(vec![base.clone()]));
	let s = b.build();
	let _g = s.enter();
	let n = if thorough { 3000 } else { 420 };
	let mut bump = |k: String| *hist.entry(k).or_default() += 1;
	for i in 0..n {
		let virtual_main = i % 4 == 3;
		let import_main = if virtual_main { format!("{i}/liba.libsonnet") } else { "liba.libsonnet".to_string() };
		let m = gen_multi(rng, i, &import_main);
		let dir = base.join(format!("{i}"));
		write_files(&dir, &m);
		bump(format!("multi.{}", m.kind));
		bump(format!("multi.{}", if m.collide { "equal-offsets" } else { "control" }));
		bump(format!("multi.main.{}", if virtual_main { "virtual" } else { "file" }));
		for p in &m.pad_kinds {
			bump(format!("multi.pad.{p}"));
		}
		let mut labels: Vec<String> = m.files.iter().map(|f| format!("{}:", f.name)).collect();
		if virtual_main {
			labels[0] = "virtual:V:".to_string();
		}
		let main_text = m.files[0].text.clone();
		let main_path = dir.join("main.jsonnet");
		let r = guarded(|| {
			let v = if virtual_main { s.evaluate_snippet("V".to_owned(), main_text.clone()) } else { s.import(main_path.as_path()) };
			v.and_then(|v| v.manifest(jrsonnet_evaluator::manifest::JsonFormat::minify())).err()
		});
		let via = if virtual_main { "multi.virtual" } else { "multi.file" };
		match r {
			Ok(Some(e)) => {
				let coll = real_collisions(&e);
				if coll > 0 {
					bump("multi.real-collisions(frames of different files, same offsets)".to_string());
				}
				// different positions although equal offsets?
				let rendered = guarded(|| compact().format(&e).expect("fmt"));
				match rendered {
					Ok(rendered) => {
						let mut ans = mstart_answer(&m, &rendered, &labels);
						ans["_collisions"] = json!(coll);
						w.case(mstart_op(&m, via), ans);
					}
					Err(p) => w.case(mstart_op(&m, via), json!({"panic": p})),
				}
				// the same error through JsFormat: `at desc (path:line:column)`
				let js = guarded(|| JsFormat { max_trace: 20 }.format(&e).expect("fmt"));
				if let Ok(js) = js {
					let mut texts = Vec::new();
					let mut ats = Vec::new();
					let mut got = Vec::new();
					for (k, f) in m.files.iter().enumerate() {
						let tag = if k == 0 && virtual_main { "virtual:V:".to_string() } else { format!("{}:", f.name) };
						for (d, at, _) in &f.expect {
							let pos = js.lines().skip(1).find_map(|l| {
								let l = l.trim_start().strip_prefix("at ")?;
								let l = l.strip_prefix(d.as_str())?.strip_prefix(" (")?;
								let i = l.find(&tag)?;
								let r = l[i + tag.len()..].strip_suffix(')')?;
								let (a, b) = r.split_once(':')?;
								Some((a.parse::<u64>().ok()?, b.parse::<u64>().ok()?))
							});
							texts.push(cps(&f.text));
							ats.push(*at);
							got.push(match pos {
								Some((l, c)) => {
									if super::ascii_prefix(&f.text, *at) {
										json!([l, c])
									} else {
										json!([l, null])
									}
								}
								None => json!("no-frame"),
							});
						}
					}
					w.case(
						json!({"op":"loc.js","via":via,"texts":texts,"at":ats,"size":m.files.iter().map(|f| f.text.chars().count()).sum::<usize>()}),
						json!({"pos": got, "_rendered": js}),
					);
				}
				// HiDoc (explaining) format: observation of the highlighted line/column
				// hi-doc expands tabs: its highlight column is a screen column then (not compared)
				let tab_before = m.files.iter().any(|f| {
					let at = f.expect[0].1;
					let ls = f.text[..at].rfind('\n').map_or(0, |p| p + 1);
					f.text[ls..at].contains('\t')
				});
				if i % 3 == 0 && tab_before {
					bump("multi.hidoc.skipped(tab before the construct)".to_string());
				}
				if i % 3 == 0 && !tab_before {
					let hd = guarded(|| HiDocFormat { resolver: PathResolver::FileName, max_trace: 20 }.format(&e).expect("fmt"));
					match hd {
						Ok(hd) => {
							let marks = hidoc_marks(&hd);
							let starts: Vec<Vec<Value>> = m
								.files
								.iter()
								.map(|f| {
									f.expect
										.iter()
										.map(|(d, at, _)| {
											// sections appear in trace order; the description identifies the frame
											let got = marks.iter().find(|x| x.1 == *d && x.2 != 0).map(|x| (x.2, x.3));
											start_json(&f.text, *at, got)
										})
										.collect()
								})
								.collect();
							bump("multi.hidoc".to_string());
							w.case(mstart_op(&m, "multi.hidoc"), json!({"start": starts, "_rendered": hd}));
						}
						Err(p) => w.case(mstart_op(&m, "multi.hidoc"), json!({"panic": p})),
					}
				}
			}
			Ok(None) => w.case(mstart_op(&m, via), json!({"start": "no-error"})),
			Err(p) => w.case(mstart_op(&m, via), json!({"panic": p})),
		}
	}
}

// ---------------------------------------------------------------------------------------------
// synthetic traces over several sources

const DESCS: &[&str] = &["D", "function <f> call", "é desc", "", "error statement", "x y z"];

pub fn run_synth(w: &mut CaseWriter, rng: &mut Rng, thorough: bool, hist: &mut BTreeMap<String, usize>) {
	let n = if thorough { 6000 } else { 800 };
	let names = ["A", "Bb", "Ccc"];
	for i in 0..n {
		let nt = 2 + rng.below(2);
		let mut texts: Vec<String> = Vec::new();
		for k in 0..nt {
			// related texts make shared boundary offsets likely: same length classes, different line structure
			let t = if k > 0 && rng.chance(1, 2) {
				let mut t: String = texts[0].clone();
				// replace some characters by newlines / other one-byte characters: same byte offsets, other lines
				let bs: Vec<usize> = t.char_indices().filter(|(_, c)| c.is_ascii()).map(|(i, _)| i).collect();
				let mut bytes = std::mem::take(&mut t).into_bytes();
				for _ in 0..1 + rng.below(4) {
					if bs.is_empty() {
						break;
					}
					let p = *rng.pick(&bs);
					bytes[p] = *rng.pick(&[b'\n', b'q', b' ', b'\n']);
				}
				String::from_utf8(bytes).expect("ascii replaced by ascii")
			} else {
				gen_text(rng, if i % 10 == 0 { 80 } else { 20 })
			};
			texts.push(t);
		}
		let srcs: Vec<Source> = texts.iter().zip(names).map(|(t, n)| Source::new_virtual(n.into(), t.as_str().into())).collect();
		let bsets: Vec<Vec<u32>> = texts.iter().map(|t| boundaries(t)).collect();
		let nf = 1 + rng.below(7);
		let mut frames: Vec<Option<(usize, u32, u32)>> = Vec::new();
		let mut descs: Vec<&str> = Vec::new();
		let mut shared = 0;
		while frames.len() < nf {
			descs.push(*rng.pick(DESCS));
			if rng.chance(1, 8) {
				frames.push(None);
				continue;
			}
			let k = rng.below(nt);
			let bs = &bsets[k];
			let a = rng.below(bs.len());
			let cap = if rng.chance(1, 2) { 4 } else { 40 };
			let b = a + rng.below((bs.len() - a).min(cap));
			let (a, b) = (bs[a], bs[b]);
			frames.push(Some((k, a, b)));
			// the same offsets in the other sources, where they are character boundaries there too
			for k2 in 0..nt {
				if k2 != k && frames.len() < nf + 2 && bsets[k2].contains(&a) && bsets[k2].contains(&b) && rng.chance(2, 3) {
					frames.push(Some((k2, a, b)));
					descs.push(*rng.pick(DESCS));
					shared += 1;
				}
			}
		}
		if shared > 0 {
			*hist.entry("synth.traces-with-shared-offsets".into()).or_default() += 1;
		}
		*hist.entry(format!("synth.sources={nt}")).or_default() += 1;
		let mut e = Error::new(ErrorKind::RuntimeError("x".into()));
		for (f, d) in frames.iter().zip(&descs) {
			e.trace_mut().0.push(StackTraceElement {
				location: f.map(|(k, a, b)| Span(srcs[k].clone(), a, b)),
				desc: (*d).to_string(),
			});
		}
		let size: usize = texts.iter().map(|t| t.chars().count()).sum();
		let fj: Vec<Value> = frames.iter().map(|f| f.map_or(Value::Null, |(k, a, b)| json!([k, a, b]))).collect();
		let op = json!({"op":"loc.trace","texts":texts.iter().map(|t| cps(t)).collect::<Vec<_>>(),
			"names":names[..nt].iter().map(|n| format!("virtual:{n}")).collect::<Vec<_>>(),
			"frames":fj,"descs":descs,"msg":"runtime error: x","padding":4,"size":size,"_src":texts});
		match guarded(|| compact().format(&e).expect("fmt")) {
			Ok(rendered) => {
				let lines: Vec<&str> = rendered.split('\n').collect();
				w.case(op, json!({"lines": lines}));
				// reference start per frame, grouped by source
				let mut files = Vec::new();
				let mut starts: Vec<Vec<Value>> = Vec::new();
				for k in 0..nt {
					let mut ats = Vec::new();
					let mut st = Vec::new();
					for (idx, f) in frames.iter().enumerate() {
						if let Some((kk, a, _)) = f {
							if *kk == k {
								ats.push(*a);
								// line idx+1 of the rendering belongs to frame idx
								let got = lines.get(idx + 1).and_then(|l| {
									let t = l.trim_start().strip_prefix(&format!("virtual:{}:", names[k]))?;
									parse_start(t.split(' ').next()?.trim_end_matches(':'))
								});
								st.push(start_json(&texts[k], *a as usize, got));
							}
						}
					}
					files.push(json!({"text": cps(&texts[k]), "at": ats}));
					starts.push(st);
				}
				w.case(
					json!({"op":"loc.mstart","via":"synth","files":files,"size":size,"_src":texts}),
					json!({"start": starts, "_rendered": rendered}),
				);
			}
			Err(p) => w.case(op, json!({"panic": p})),
		}
		// JsFormat on the same error
		if let Ok(js) = guarded(|| JsFormat { max_trace: 20 }.format(&e).expect("fmt")) {
			let mut tx = Vec::new();
			let mut ats = Vec::new();
			let mut got = Vec::new();
			for (idx, f) in frames.iter().enumerate() {
				if let Some((k, a, _)) = f {
					tx.push(cps(&texts[*k]));
					ats.push(*a);
					let pos = js.split('\n').nth(idx + 1).and_then(|l| {
						let r = l.strip_suffix(')')?;
						let i = r.rfind(&format!("(virtual:{}:", names[*k]))?;
						let r = &r[i + names[*k].len() + 10..];
						let (x, y) = r.split_once(':')?;
						Some((x.parse::<u64>().ok()?, y.parse::<u64>().ok()?))
					});
					got.push(match pos {
						Some((l, c)) => {
							if super::ascii_prefix(&texts[*k], *a as usize) {
								json!([l, c])
							} else {
								json!([l, null])
							}
						}
						None => json!("no-frame"),
					});
				}
			}
			w.case(json!({"op":"loc.js","via":"synth","texts":tx,"at":ats,"size":size}), json!({"pos": got, "_rendered": js}));
		}
		// ImportSyntaxError at an arbitrary offset of texts[0]
		if i % 2 == 0 {
			let t = &texts[0];
			let off = match rng.below(4) {
				0 => t.len(),
				1 => t.len() + 1 + rng.below(3),
				_ => *rng.pick(&bsets[0]) as usize,
			};
			let e = Error::new(ErrorKind::ImportSyntaxError {
				path: srcs[0].clone(),
				error: Box::new(SyntaxError { message: "m".into(), location: SyntaxErrorLocation { offset: off } }),
			});
			let op = json!({"op":"loc.synerr","text":cps(t),"offset":off,"size":t.chars().count(),"_src":t});
			match guarded(|| compact().format(&e).expect("fmt")) {
				Ok(r) => {
					let loc = r.split('\n').nth(1).map(|l| l.trim_start().trim_start_matches("virtual:A:").to_string());
					w.case(op, json!({"printed": loc}));
				}
				Err(p) => w.case(op, json!({"panic": p})),
			}
		}
	}
}
