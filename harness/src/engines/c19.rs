//! C19 engine (not yet built).
use crate::common::{CaseWriter, Opts};

pub fn run(opts: &Opts) {
	let w = CaseWriter::new(&opts.out);
	w.finish(serde_json::json!({"engine":"c19","cases":0,"rule":"stub"}), &opts.out);
}
