//! C19 — formatting preserves the program (translation validation).
//!
//! For every generated syntactically valid program `x` (token-level generator covering every
//! construct of the quantifier; each program also decorated with comments at token boundaries) the
//! REAL `jrsonnet_formatter::format` is run in-process.  It either declines (`Err(diagnostic)`) or
//! returns text `o`; `o` is re-parsed with the evaluator's parser (`jrsonnet_ir_parser::parse`), both
//! ASTs are serialised with every span erased (`tree` below — a complete walker over
//! `jrsonnet_ir::Expr`, imports included) and both texts are lexed with the real lexer.  The Lean
//! driver (`fmt.validate`) decides `Fmt.validate` (equal sugar normal forms), well-formedness of both
//! trees and equality of the comment projections; the harness additionally evaluates both programs
//! with the real evaluator and compares the `jrsonnet-fmt` binary with the library call.
use std::{collections::BTreeMap, process::Command};

use jrsonnet_formatter::{format, FormatOptions};
use jrsonnet_ir::{
	ArgsDesc, AssertStmt, BindSpec, CompSpec, Destruct, Expr, ExprParams, FieldMember, FieldName,
	ImportKind, LiteralType, ObjBody, Source, Visibility,
};
use jrsonnet_lexer::{Lexer, SyntaxKind};
use jrsonnet_rowan_parser::{rowan::NodeOrToken, AstNode};
use serde_json::{json, Value};

use crate::common::{eval_json, guarded, new_state, CaseWriter, Opts, Rng};

// ---------------------------------------------------------------------------------------------
// AST serialisation: `[label, kid, ...]` = node, string = atom.  Spans are not visited.
// ---------------------------------------------------------------------------------------------

fn none() -> Value {
	json!(["none"])
}
fn opt(e: Option<&Expr>) -> Value {
	e.map_or_else(none, tree)
}
fn list(label: &str, it: impl Iterator<Item = Value>) -> Value {
	let mut v = vec![Value::String(label.to_owned())];
	v.extend(it);
	Value::Array(v)
}
fn destruct(d: &Destruct) -> Value {
	match d {
		Destruct::Full(n) => json!(["dfull", n.to_string()]),
		#[allow(unreachable_patterns)]
		other => json!(["dother", format!("{other:?}")]),
	}
}
fn params(p: &ExprParams) -> Value {
	list(
		"params",
		p.exprs
			.iter()
			.map(|p| json!(["param", destruct(&p.destruct), opt(p.default.as_deref())])),
	)
}
fn bind(b: &BindSpec) -> Value {
	match b {
		BindSpec::Field { into, value } => json!(["bind", destruct(into), tree(value)]),
		BindSpec::Function {
			name,
			params: p,
			value,
		} => json!(["fn", ["dfull", name.to_string()], params(p), tree(value)]),
	}
}
fn spec(s: &CompSpec) -> Value {
	match s {
		CompSpec::IfSpec(i) => json!(["ifspec", tree(&i.cond)]),
		CompSpec::ForSpec(f) => json!(["forspec", destruct(&f.destruct), tree(&f.over)]),
	}
}
fn field(f: &FieldMember) -> Value {
	let name = match &f.name.value {
		FieldName::Fixed(s) => json!(["fixed", s.to_string()]),
		FieldName::Dyn(e) => json!(["dyn", tree(e)]),
	};
	json!([
		"field",
		name,
		if f.plus { "true" } else { "false" },
		f.params.as_ref().map_or_else(none, params),
		match f.visibility {
			Visibility::Normal => ":",
			Visibility::Hidden => "::",
			Visibility::Unhide => ":::",
		},
		tree(&f.value)
	])
}
fn assert_stmt(a: &AssertStmt) -> Value {
	json!(["assertion", tree(&a.0), opt(a.1.as_ref().map(|m| &m.value))])
}
fn body(b: &ObjBody) -> Value {
	match b {
		ObjBody::MemberList(m) => json!([
			"members",
			list("binds", m.locals.iter().map(bind)),
			list("asserts", m.asserts.iter().map(assert_stmt)),
			list("fields", m.fields.iter().map(field))
		]),
		ObjBody::ObjComp(c) => json!([
			"objcomp",
			list("binds", c.locals.iter().map(bind)),
			field(&c.field),
			list("specs", c.compspecs.iter().map(spec))
		]),
	}
}
fn args(a: &ArgsDesc) -> (Value, Value) {
	(
		list("args", a.unnamed.iter().map(|e| tree(e))),
		list(
			"named",
			a.named.iter().map(|(n, e)| json!(["narg", n.to_string(), tree(e)])),
		),
	)
}
pub fn tree(e: &Expr) -> Value {
	match e {
		Expr::Literal(l) => json!(["lit", match l {
			LiteralType::This => "self",
			LiteralType::Super => "super",
			LiteralType::Dollar => "$",
			LiteralType::Null => "null",
			LiteralType::True => "true",
			LiteralType::False => "false",
		}]),
		Expr::Str(s) => json!(["str", s.to_string()]),
		Expr::Num(n) => json!(["num", format!("{:016x}", n.to_bits())]),
		Expr::Var(v) => json!(["var", v.value.to_string()]),
		Expr::Arr(es) => list("arr", es.iter().map(tree)),
		Expr::ArrComp(b, specs) => json!(["arrcomp", tree(b), list("specs", specs.iter().map(spec))]),
		Expr::Obj(b) => json!(["obj", body(b)]),
		Expr::ObjExtend(e, b) => json!(["objext", tree(e), body(b)]),
		Expr::UnaryOp(o, e) => json!(["unary", format!("{o}"), tree(e)]),
		Expr::BinaryOp(b) => json!(["binary", format!("{}", b.op), tree(&b.lhs), tree(&b.rhs)]),
		Expr::AssertExpr(a) => json!(["assert", assert_stmt(&a.assert), tree(&a.rest)]),
		Expr::LocalExpr(bs, b) => json!(["local", list("binds", bs.iter().map(bind)), tree(b)]),
		Expr::Import(k, e) => json!(["import", match k.value {
			ImportKind::Normal => "import",
			ImportKind::Str => "importstr",
			ImportKind::Bin => "importbin",
		}, tree(e)]),
		Expr::ErrorStmt(_, e) => json!(["error", tree(e)]),
		Expr::Apply(f, a, ts) => {
			let (p, n) = args(&a.value);
			json!(["apply", tree(f), p, n, if *ts { "true" } else { "false" }])
		}
		Expr::Index { indexable, parts } => json!([
			"index",
			tree(indexable),
			list("parts", parts.iter().map(|p| {
				json!(["part", tree(&p.value)])
			}))
		]),
		Expr::Function(p, b) => json!(["func", params(p), tree(b)]),
		Expr::IfElse(i) => json!([
			"if",
			tree(&i.cond.cond),
			tree(&i.cond_then),
			opt(i.cond_else.as_ref())
		]),
		Expr::Slice(s) => {
			let o = |e: &Option<jrsonnet_ir::Spanned<Expr>>| opt(e.as_ref().map(|e| &e.value));
			json!(["slice", tree(&s.value), o(&s.slice.start), o(&s.slice.end), o(&s.slice.step)])
		}
	}
}

fn parse_ir(src: &str) -> Result<Value, String> {
	match guarded(|| {
		jrsonnet_ir_parser::parse(
			src,
			&jrsonnet_ir_parser::ParserSettings {
				source: Source::new_virtual("<c19>".into(), src.into()),
			},
		)
		.map(|e| tree(&e))
		.map_err(|e| format!("{e:?}"))
	}) {
		Ok(r) => r,
		Err(p) => Err(format!("panic: {p}")),
	}
}

fn is_comment(k: SyntaxKind) -> bool {
	matches!(
		k,
		SyntaxKind::SINGLE_LINE_SLASH_COMMENT
			| SyntaxKind::SINGLE_LINE_HASH_COMMENT
			| SyntaxKind::MULTI_LINE_COMMENT
	)
}
fn lex(src: &str) -> Vec<(SyntaxKind, String)> {
	Lexer::new(src).map(|l| (l.kind, l.text.to_owned())).collect()
}
fn toks_json(t: &[(SyntaxKind, String)]) -> Value {
	Value::Array(t.iter().map(|(k, s)| json!([format!("{k:?}"), s])).collect())
}

/// syntactic position of every comment of `src` in the formatter's own syntax tree:
/// (comment text, parent node kind, previous significant sibling kind, next significant sibling kind)
fn comment_sites(src: &str) -> Vec<(String, String, String, String)> {
	let (file, _errs) = jrsonnet_rowan_parser::parse(src);
	let mut out = Vec::new();
	for el in file.syntax().descendants_with_tokens() {
		let NodeOrToken::Token(t) = el else { continue };
		let k = format!("{:?}", t.kind());
		if !k.contains("COMMENT") {
			continue;
		}
		let trivia = |s: &str| s == "WHITESPACE" || s.contains("COMMENT");
		let parent = t.parent().map_or("-".to_owned(), |p| format!("{:?}", p.kind()));
		let mut prev = "-".to_owned();
		let mut cur = t.prev_sibling_or_token();
		while let Some(c) = cur {
			let ck = format!("{:?}", c.kind());
			if !trivia(&ck) {
				prev = ck;
				break;
			}
			cur = c.prev_sibling_or_token();
		}
		let mut next = "-".to_owned();
		let mut cur = t.next_sibling_or_token();
		while let Some(c) = cur {
			let ck = format!("{:?}", c.kind());
			if !trivia(&ck) {
				next = ck;
				break;
			}
			cur = c.next_sibling_or_token();
		}
		out.push((t.text().to_owned(), parent, prev, next));
	}
	out
}

// ---------------------------------------------------------------------------------------------
// program generator (token level)
// ---------------------------------------------------------------------------------------------

#[derive(Clone, Copy, PartialEq, Eq, Debug)]
enum Ty {
	Num,
	Bool,
	Str,
	Arr,
	Obj,
	Fun,
}

struct Gen<'a> {
	r: &'a mut Rng,
	t: Vec<String>,
	vars: Vec<(String, Ty)>,
	feats: BTreeMap<&'static str, usize>,
	obj_depth: usize,
	ext_depth: usize,
	fresh: usize,
}

const NAMES: &[&str] = &["a", "b", "c", "x", "y", "z", "foo", "bar_1", "q"];

impl<'a> Gen<'a> {
	fn new(r: &'a mut Rng) -> Self {
		Self {
			r,
			t: Vec::new(),
			vars: Vec::new(),
			feats: BTreeMap::new(),
			obj_depth: 0,
			ext_depth: 0,
			fresh: 0,
		}
	}
	fn p(&mut self, s: &str) {
		self.t.push(s.to_owned());
	}
	fn ps(&mut self, ss: &[&str]) {
		for s in ss {
			self.p(s);
		}
	}
	fn feat(&mut self, f: &'static str) {
		*self.feats.entry(f).or_default() += 1;
	}
	fn name(&mut self) -> String {
		self.fresh += 1;
		if self.r.chance(1, 2) {
			format!("{}{}", self.r.pick(NAMES), self.fresh)
		} else {
			format!("v{}", self.fresh)
		}
	}
	fn var_of(&mut self, ty: Ty) -> Option<String> {
		let c: Vec<&String> = self.vars.iter().filter(|v| v.1 == ty).map(|v| &v.0).collect();
		if c.is_empty() {
			None
		} else {
			Some(c[self.r.below(c.len())].clone())
		}
	}
	fn any(&mut self, d: usize) {
		match self.r.below(5) {
			0 => self.num(d),
			1 => self.boolean(d),
			2 => self.string(d),
			3 => self.arr(d),
			_ => self.obj(d),
		}
	}
	fn of(&mut self, ty: Ty, d: usize) {
		match ty {
			Ty::Num => self.num(d),
			Ty::Bool => self.boolean(d),
			Ty::Str => self.string(d),
			Ty::Arr => self.arr(d),
			Ty::Obj => self.obj(d),
			Ty::Fun => self.fun(d),
		}
	}
	fn num_lit(&mut self) {
		let l = *self.r.pick(&[
			"0", "1", "2", "3", "7", "10", "42", "1.5", "0.25", "1e3", "2E-2", "1.0e+2", "100", "255",
		]);
		self.p(l);
	}
	fn string_lit(&mut self) {
		match self.r.below(9) {
			0 => {
				self.feat("str-double");
				let l = *self.r.pick(&["\"\"", "\"a\"", "\"he said \\\"hi\\\"\"", "\"tab\\there\"", "\"\\u00e9\\n\"", "\"ünï\"", "\"it's\""]);
				self.p(l);
			}
			1 => {
				self.feat("str-single");
				let l = *self.r.pick(&["''", "'b'", "'it\\'s'", "'say \"x\"'", "'\\\\'", "'%d'"]);
				self.p(l);
			}
			2 => {
				self.feat("str-verbatim-double");
				let l = *self.r.pick(&["@\"\"", "@\"c:\\dir\"", "@\"quote \"\" in\"", "@\"it's\""]);
				self.p(l);
			}
			3 => {
				self.feat("str-verbatim-single");
				let l = *self.r.pick(&["@''", "@'c:\\dir'", "@'quote '' in'", "@'say \"x\"'"]);
				self.p(l);
			}
			4 | 5 => self.text_block(),
			_ => {
				let l = *self.r.pick(&["\"k\"", "\"v\"", "'s'", "\"abc\"", "\"x y\""]);
				self.p(l);
			}
		}
	}
	fn text_block(&mut self) {
		self.feat("text-block");
		let indent = *self.r.pick(&["  ", "\t", "    ", " ", "\t\t", " \t", "\t "]);
		if indent.contains('\t') {
			self.feat("text-block-tab-indent");
		}
		let mut s = String::from("|||");
		if self.r.chance(1, 3) {
			self.feat("text-block-chomp");
			s.push('-');
		}
		s.push('\n');
		let n = 1 + self.r.below(5);
		for i in 0..n {
			// the first line fixes the block indent and must carry text
			// (its whole leading white space IS the indent, so it cannot be "deeper")
			let k = if i == 0 { *self.r.pick(&[5usize, 6, 9, 10, 11]) } else { self.r.below(14) };
			match k {
				0 => {
					self.feat("text-block-empty-line");
					s.push('\n');
				}
				1 => {
					// part of the string value: a line of blanks BEYOND the block indent
					self.feat("text-block-ws-only-line-spaces");
					s.push_str(indent);
					s.push_str(*self.r.pick(&[" ", "  ", "    "]));
					s.push('\n');
				}
				2 => {
					self.feat("text-block-ws-only-line-tab");
					s.push_str(indent);
					s.push('\t');
					s.push('\n');
				}
				3 => {
					self.feat("text-block-ws-only-line-mixed");
					s.push_str(indent);
					s.push_str(*self.r.pick(&[" \t", "\t ", " \t ", "\t\t "]));
					s.push('\n');
				}
				4 => {
					// exactly the indent and nothing else: an empty line of the value
					self.feat("text-block-indent-only-line");
					s.push_str(indent);
					s.push('\n');
				}
				5 => {
					self.feat("text-block-trailing-ws");
					s.push_str(indent);
					s.push_str(*self.r.pick(&["tail  ", "tail\t", "tail \t ", "x:  "]));
					s.push('\n');
				}
				6 => {
					self.feat("text-block-inner-tab");
					s.push_str(indent);
					s.push_str("col\tumn\n");
				}
				7 => {
					self.feat("text-block-deeper-line");
					s.push_str(indent);
					s.push_str(*self.r.pick(&["  more indented\n", "        def f():\n", " one more\n"]));
				}
				8 => {
					s.push_str(indent);
					s.push_str("\tinner leading tab\n");
					self.feat("text-block-inner-tab");
				}
				_ => {
					s.push_str(indent);
					s.push_str(*self.r.pick(&["line one", "x: %d", "say \"hi\" 'there'", "key: value", "||| not the end", "# not a comment", "// neither"]));
					s.push('\n');
				}
			}
		}
		// the terminator line must not start with the block indent (it would be a content line)
		let closers: Vec<&str> =
			["", "  ", "\t", "      ", " "].into_iter().filter(|c| !c.starts_with(indent)).collect();
		s.push_str(*self.r.pick(&closers));
		s.push_str("|||");
		self.p(&s);
	}
	/// a text block at nesting depth 1..4 inside objects / arrays / calls / locals / conditionals
	fn nested_text_block(&mut self) {
		self.feat("text-block-nested");
		let depth = 1 + self.r.below(4);
		let mut closers: Vec<Vec<&'static str>> = Vec::new();
		for _ in 0..depth {
			match self.r.below(7) {
				0 => {
					self.ps(&["{", "a", ":"]);
					closers.push(vec!["}"]);
				}
				1 => {
					self.ps(&["{", "k", ":", "1", ",", "'t x'", "::"]);
					closers.push(vec![",", "}"]);
				}
				2 => {
					self.p("[");
					closers.push(vec!["]"]);
				}
				3 => {
					self.ps(&["[", "0", ","]);
					closers.push(vec![",", "1", ",", "]"]);
				}
				4 => {
					self.ps(&["std", ".", "length", "("]);
					closers.push(vec![")"]);
				}
				5 => {
					self.ps(&["(", "function", "(", "s", ",", "t", "=", "1", ")", "s", ")", "(", "s", "="]);
					closers.push(vec![")"]);
				}
				_ => {
					self.ps(&["local", "tb", "="]);
					closers.push(vec![";", "tb"]);
				}
			}
		}
		self.text_block();
		if self.r.chance(1, 3) {
			self.ps(&["+"]);
			self.text_block();
		}
		while let Some(c) = closers.pop() {
			self.ps(&c);
		}
	}
	fn num(&mut self, d: usize) {
		if d == 0 {
			if let (true, Some(v)) = (self.r.chance(1, 3), self.var_of(Ty::Num)) {
				self.p(&v);
			} else {
				self.num_lit();
			}
			return;
		}
		let d = d - 1;
		match self.r.below(24) {
			0 | 1 => self.num(0),
			2 => {
				self.feat("unary-minus");
				self.p("-");
				self.num(d);
			}
			3 => {
				self.feat("unary-bitnot");
				self.p("~");
				self.num(d);
			}
			4 => {
				if self.r.chance(1, 4) {
					self.feat("unary-plus");
					self.p("+");
					self.num(d);
				} else {
					self.feat("unary-over-postfix");
					let op = *self.r.pick(&["-", "~"]);
					self.p(op);
					self.arr(d);
					if self.r.chance(1, 2) {
						self.ps(&["[", "0", "]"]);
					} else {
						self.feat("unary-over-slice");
						self.ps(&["[", "1", ":", "2", ":", "3", "]"]);
					}
				}
			}
			5..=8 => {
				self.feat("binary-arith");
				self.num(d);
				let op = *self.r.pick(&["+", "-", "*", "/", "%", "&", "|", "^", "<<", ">>"]);
				self.p(op);
				self.num(d);
			}
			9 => {
				self.feat("paren");
				self.p("(");
				self.num(d);
				self.p(")");
			}
			10 => {
				self.feat("if-else");
				self.p("if");
				self.boolean(d);
				self.p("then");
				self.num(d);
				self.p("else");
				self.num(d);
			}
			11 | 12 => self.local(Ty::Num, d),
			13 => {
				self.feat("index-expr");
				self.arr(d);
				self.p("[");
				self.num(0);
				self.p("]");
			}
			14 => {
				self.feat("std-call");
				self.ps(&["std", ".", "length", "("]);
				self.arr(d);
				self.p(")");
			}
			15 => {
				self.feat("index-field");
				self.ps(&["{", "k", ":"]);
				self.num(d);
				self.ps(&["}", ".", "k"]);
			}
			16 | 17 => self.call(d),
			18 => self.assert_expr(Ty::Num, d),
			19 => {
				if self.obj_depth > 0 && self.r.chance(1, 2) {
					self.feat("self-index");
					let w = *self.r.pick(&["self", "$"]);
					self.ps(&[w, ".", "k"]);
				} else {
					self.num(d);
				}
			}
			20 => {
				self.feat("if-no-else");
				self.ps(&["if", "true", "then"]);
				self.num(d);
			}
			21 => {
				self.feat("error-expr");
				self.ps(&["if", "true", "then"]);
				self.num(d);
				self.ps(&["else", "error"]);
				self.string(d);
			}
			22 => {
				self.feat("import");
				let n = self.name();
				self.ps(&["local", &n, "="]);
				let k = *self.r.pick(&["import", "importstr", "importbin"]);
				self.p(k);
				let f = *self.r.pick(&["\"lib.libsonnet\"", "'data.txt'", "@\"c.bin\"", "@'d.json'"]);
				self.p(f);
				self.p(";");
				self.num(d);
			}
			_ => {
				self.feat("index-chain");
				self.ps(&["{", "k", ":", "[", "{", "m", ":"]);
				self.num(d);
				self.ps(&["}", "]", "}", ".", "k", "[", "0", "]", "[", "\"m\"", "]"]);
			}
		}
	}
	fn call(&mut self, d: usize) {
		if let (true, Some(f)) = (self.r.chance(2, 3), self.var_of(Ty::Fun)) {
			self.p(&f);
		} else {
			self.feat("func-literal");
			self.ps(&["(", "function", "(", "x", ",", "y", "=", "1", ")", "x", "+", "y", ")"]);
		}
		self.p("(");
		match self.r.below(4) {
			0 => {
				self.feat("call-named-arg");
				self.ps(&["x", "="]);
				self.num(d);
			}
			1 => {
				self.feat("call-mixed-args");
				self.num(d);
				self.ps(&[",", "y", "="]);
				self.num(d);
			}
			2 => {
				self.feat("call-trailing-comma");
				self.num(d);
				self.p(",");
			}
			_ => self.num(d),
		}
		self.p(")");
		if self.r.chance(1, 3) {
			self.feat("tailstrict");
			self.p("tailstrict");
		}
	}
	fn assert_expr(&mut self, ty: Ty, d: usize) {
		self.feat("assert-expr");
		self.p("assert");
		self.boolean(d);
		if self.r.chance(1, 2) {
			self.feat("assert-message");
			self.p(":");
			self.string(0);
		}
		self.p(";");
		self.of(ty, d);
	}
	fn local(&mut self, ty: Ty, d: usize) {
		let n = match self.r.below(5) {
			0 | 1 => 1,
			2 | 3 => 2,
			_ => 3,
		};
		if n > 1 {
			self.feat("local-multi-bind");
		} else {
			self.feat("local");
		}
		self.p("local");
		let mark = self.vars.len();
		let mut bound = Vec::new();
		for i in 0..n {
			if i > 0 {
				self.p(",");
			}
			let nm = self.name();
			match self.r.below(6) {
				0 => {
					self.feat("local-fn-sugar");
					self.ps(&[&nm, "(", "x", ",", "y", "=", "2", ")", "=", "x", "*", "y"]);
					bound.push((nm, Ty::Fun));
				}
				1 => {
					self.feat("local-fn-explicit");
					self.ps(&[&nm, "=", "function", "(", "x", ",", "y", "=", "2", ")", "x", "-", "y"]);
					bound.push((nm, Ty::Fun));
				}
				2 => {
					self.feat("local-fn-sugar");
					self.ps(&[&nm, "(", "x", ")", "="]);
					self.vars.push(("x".into(), Ty::Num));
					self.num(d.min(1));
					self.vars.pop();
					bound.push((nm, Ty::Fun));
				}
				_ => {
					let t = *self.r.pick(&[Ty::Num, Ty::Num, Ty::Bool, Ty::Str, Ty::Arr, Ty::Obj]);
					self.ps(&[&nm, "="]);
					self.of(t, d.min(2));
					bound.push((nm, t));
				}
			}
		}
		if n > 1 && self.r.chance(1, 5) {
			// trailing comma is not valid before `;` — never generated
		}
		self.p(";");
		self.vars.truncate(mark);
		self.vars.extend(bound);
		self.of(ty, d);
		self.vars.truncate(mark);
	}
	fn boolean(&mut self, d: usize) {
		if d == 0 {
			if let (true, Some(v)) = (self.r.chance(1, 3), self.var_of(Ty::Bool)) {
				self.p(&v);
			} else {
				let l = *self.r.pick(&["true", "false"]);
				self.p(l);
			}
			return;
		}
		let d = d - 1;
		match self.r.below(10) {
			0 => self.boolean(0),
			1 => {
				self.feat("unary-not");
				self.p("!");
				self.boolean(d);
			}
			2 | 3 => {
				self.feat("binary-compare");
				self.num(d);
				let op = *self.r.pick(&["<", ">", "<=", ">=", "==", "!="]);
				self.p(op);
				self.num(d);
			}
			4 | 5 => {
				self.feat("binary-logic");
				self.boolean(d);
				let op = *self.r.pick(&["&&", "||"]);
				self.p(op);
				self.boolean(d);
			}
			6 => {
				self.feat("binary-in");
				self.string(0);
				self.p("in");
				self.obj(d);
			}
			7 => {
				if self.ext_depth > 0 {
					self.feat("in-super");
					self.ps(&["\"k\"", "in", "super"]);
				} else {
					self.feat("unary-not-over-index");
					self.ps(&["!", "{", "b", ":", "true", "}", ".", "b"]);
				}
			}
			8 => self.local(Ty::Bool, d),
			_ => {
				self.feat("binary-eq-any");
				self.any(d);
				let op = *self.r.pick(&["==", "!="]);
				self.p(op);
				self.any(d);
			}
		}
	}
	fn string(&mut self, d: usize) {
		if d == 0 {
			if let (true, Some(v)) = (self.r.chance(1, 4), self.var_of(Ty::Str)) {
				self.p(&v);
			} else {
				self.string_lit();
			}
			return;
		}
		let d = d - 1;
		match self.r.below(8) {
			0 | 1 | 2 => self.string(0),
			3 => {
				self.feat("binary-str-concat");
				self.string(d);
				self.p("+");
				self.string(d);
			}
			4 => {
				self.feat("binary-format");
				self.ps(&["\"n=%d\"", "%"]);
				self.num(d);
			}
			5 => {
				self.feat("slice-string");
				self.string(0);
				self.ps(&["[", "0", ":", "2", "]"]);
			}
			6 => self.local(Ty::Str, d),
			_ => {
				self.feat("str-plus-any");
				self.string(0);
				self.p("+");
				self.any(d);
			}
		}
	}
	fn arr(&mut self, d: usize) {
		if d == 0 {
			if let (true, Some(v)) = (self.r.chance(1, 3), self.var_of(Ty::Arr)) {
				self.p(&v);
			} else if self.r.chance(1, 4) {
				self.feat("array-empty");
				self.ps(&["[", "]"]);
			} else {
				self.ps(&["[", "1", ",", "2", ",", "3", ",", "4", "]"]);
			}
			return;
		}
		let d = d - 1;
		match self.r.below(10) {
			0 | 1 | 2 => {
				self.feat("array");
				self.p("[");
				let n = self.r.below(4);
				for i in 0..n {
					if i > 0 {
						self.p(",");
					}
					if self.r.chance(2, 3) {
						self.num(d);
					} else {
						self.any(d);
					}
				}
				if n > 0 && self.r.chance(1, 3) {
					self.feat("array-trailing-comma");
					self.p(",");
				}
				self.p("]");
			}
			3 | 4 => {
				self.feat("array-comprehension");
				self.p("[");
				let x = self.name();
				self.vars.push((x.clone(), Ty::Num));
				self.num(d);
				self.vars.pop();
				self.ps(&["for", &x, "in"]);
				self.arr(d.min(1));
				match self.r.below(3) {
					0 => {
						self.feat("comprehension-if");
						self.vars.push((x.clone(), Ty::Num));
						self.p("if");
						self.ps(&[&x, ">", "1"]);
						self.vars.pop();
					}
					1 => {
						self.feat("comprehension-nested-for");
						let y = self.name();
						self.ps(&["for", &y, "in", "[", "1", ",", "2", "]", "if", &y, "<", "2"]);
					}
					_ => {}
				}
				self.p("]");
			}
			5 | 6 => {
				self.feat("slice");
				self.arr(d);
				let form: &[&str] = match self.r.below(8) {
					0 => &["[", "1", ":", "]"],
					1 => &["[", ":", "2", "]"],
					2 => &["[", ":", ":", "2", "]"],
					3 => &["[", "1", ":", "3", ":", "1", "]"],
					4 => &["[", ":", ":", "]"],
					5 => &["[", "0", ":", "3", "]"],
					6 => &["[", "1", ":", ":", "2", "]"],
					_ => &["[", ":", "]"],
				};
				self.ps(form);
			}
			7 => {
				self.feat("binary-arr-concat");
				self.arr(d);
				self.p("+");
				self.arr(d);
			}
			8 => {
				self.feat("std-call-function-arg");
				self.ps(&["std", ".", "map", "(", "function", "(", "e", ")", "e", "*", "2", ","]);
				self.arr(d);
				self.p(")");
			}
			_ => self.local(Ty::Arr, d),
		}
	}
	fn fun(&mut self, d: usize) {
		self.feat("func-literal");
		self.ps(&["function", "(", "x", ",", "y", "=", "3", ")"]);
		self.vars.push(("x".into(), Ty::Num));
		self.num(d.min(1));
		self.vars.pop();
	}
	fn field_name(&mut self) -> String {
		self.fresh += 1;
		let id = format!("f{}", self.fresh);
		match self.r.below(6) {
			0 => {
				self.feat("field-name-string");
				self.p(&format!("\"{id}\""));
			}
			1 => {
				self.feat("field-name-string");
				self.p(&format!("'{id} s'"));
			}
			2 => {
				self.feat("field-name-dynamic");
				self.ps(&["[", &format!("\"{id}\""), "+", "\"d\"", "]"]);
			}
			_ => self.p(&id),
		}
		id
	}
	fn members(&mut self, d: usize, ext: bool) {
		self.obj_depth += 1;
		if ext {
			self.ext_depth += 1;
		}
		let mark = self.vars.len();
		let n = self.r.below(5);
		let mut first = true;
		// `k` is the field other generators index
		let mut items: Vec<usize> = (0..n).map(|_| self.r.below(12)).collect();
		items.insert(self.r.below(items.len() + 1), 100);
		// object locals are visible in every member: collect them first so later use is in scope
		for it in items {
			if !first {
				self.p(",");
			}
			first = false;
			match it {
				100 => {
					self.ps(&["k", ":"]);
					self.num(d);
				}
				0 => {
					self.feat("object-local");
					let nm = self.name();
					self.ps(&["local", &nm, "="]);
					self.num(d.min(1));
					self.vars.push((nm, Ty::Num));
				}
				1 => {
					self.feat("object-local-fn");
					let nm = self.name();
					if self.r.chance(1, 2) {
						self.ps(&["local", &nm, "(", "x", ")", "=", "x", "+", "1"]);
					} else {
						self.ps(&["local", &nm, "=", "function", "(", "x", ")", "x", "+", "1"]);
					}
					self.vars.push((nm, Ty::Fun));
				}
				2 => {
					self.feat("object-assert");
					self.p("assert");
					self.boolean(d.min(1));
					if self.r.chance(1, 2) {
						self.feat("object-assert-message");
						self.ps(&[":", "\"msg\""]);
					}
				}
				3 => {
					self.feat("method");
					self.field_name();
					self.ps(&["(", "x", ",", "y", "=", "2", ")"]);
					let v = *self.r.pick(&[":", "::", ":::"]);
					self.p(v);
					self.ps(&["x", "+", "y"]);
				}
				4 => {
					self.feat("field-function-value");
					self.field_name();
					self.ps(&[":", "function", "(", "x", ")", "x", "*", "2"]);
				}
				5 => {
					self.feat("field-hidden");
					self.field_name();
					self.p("::");
					self.any(d);
				}
				6 => {
					self.feat("field-unhide");
					self.field_name();
					self.p(":::");
					self.any(d);
				}
				7 => {
					self.feat("field-plus");
					self.field_name();
					let v = *self.r.pick(&["+:", "+::", "+:::"]);
					self.p(v);
					match self.r.below(3) {
						0 => self.obj(d),
						1 => self.arr(d),
						_ => self.num(d),
					}
				}
				8 => {
					self.feat("method-no-params");
					self.field_name();
					self.ps(&["(", ")", ":"]);
					self.num(d);
				}
				_ => {
					self.field_name();
					self.p(":");
					self.any(d);
				}
			}
		}
		if self.r.chance(1, 3) {
			self.feat("object-trailing-comma");
			self.p(",");
		}
		self.vars.truncate(mark);
		self.obj_depth -= 1;
		if ext {
			self.ext_depth -= 1;
		}
	}
	fn obj(&mut self, d: usize) {
		if d == 0 {
			if let (true, Some(v)) = (self.r.chance(1, 3), self.var_of(Ty::Obj)) {
				self.p(&v);
			} else if self.r.chance(1, 4) {
				self.feat("object-empty");
				self.ps(&["{", "}"]);
			} else {
				self.ps(&["{", "k", ":", "1", ",", "j", ":", "\"s\"", "}"]);
			}
			return;
		}
		let d = d - 1;
		match self.r.below(10) {
			0..=4 => {
				self.feat("object");
				self.p("{");
				self.members(d, false);
				self.p("}");
			}
			5 => {
				self.feat("object-comprehension");
				self.p("{");
				let x = self.name();
				if self.r.chance(1, 2) {
					self.feat("object-comprehension-local");
					self.ps(&["local", "w", "=", "1", ","]);
				}
				self.ps(&["[", "\"k\"", "+", &x, "]", ":", &x]);
				if self.r.chance(1, 3) {
					self.p(",");
				}
				self.ps(&["for", &x, "in"]);
				if let (true, Some(v)) = (self.r.chance(1, 2), self.var_of(Ty::Arr)) {
					self.feat("comprehension-over-var");
					self.p(&v);
				} else {
					self.ps(&["[", "1", ",", "2", "]"]);
				}
				if self.r.chance(1, 2) {
					self.feat("comprehension-if");
					self.ps(&["if", &x, ">", "0"]);
				}
				if self.r.chance(1, 4) {
					self.feat("comprehension-nested-for");
					self.ps(&["for", "w9", "in", "[", &x, "]", "if", "w9", "==", &x]);
				}
				self.p("}");
			}
			6 => {
				self.feat("object-extend");
				self.obj(d);
				self.p("{");
				self.members(d, true);
				if self.r.chance(1, 2) {
					self.feat("super-index");
					self.ps(&[",", "sup", ":", "super", ".", "k"]);
				}
				self.p("}");
			}
			7 => {
				self.feat("binary-obj-add");
				self.obj(d);
				self.p("+");
				self.p("{");
				self.members(d, true);
				self.p("}");
			}
			8 => self.local(Ty::Obj, d),
			_ => self.assert_expr(Ty::Obj, d),
		}
	}
}

fn join(toks: &[String], r: &mut Rng, newlines: bool) -> String {
	let mut s = String::new();
	for (i, t) in toks.iter().enumerate() {
		if i > 0 {
			if newlines && r.chance(1, 6) {
				s.push('\n');
				if r.chance(1, 5) {
					s.push('\n');
				}
			} else {
				s.push(' ');
			}
		}
		s.push_str(t);
	}
	s
}

/// boundaries 0..=n (0 = before the first token, n = after the last)
fn decorate(toks: &[String], r: &mut Rng, style: &str, only: Option<&dyn Fn(usize) -> bool>) -> String {
	let mut s = String::new();
	let mut id = 0;
	let n = toks.len();
	for b in 0..=n {
		let here = match (style, only) {
			(_, Some(f)) => f(b),
			("mixed", None) => r.chance(1, 3),
			_ => true,
		};
		// sometimes two comments at one boundary (their ORDER is part of the property)
		let count = if !here {
			0
		} else if style == "mixed" && only.is_none() && r.chance(1, 4) {
			2
		} else {
			1
		};
		for _ in 0..count {
			id += 1;
			let kind = match style {
				"block" => 0,
				"slash" => 1,
				"hash" => 2,
				_ => r.below(5),
			};
			match kind {
				0 => s.push_str(&format!("/* c{id} */ ")),
				1 => s.push_str(&format!("// c{id} line\n")),
				2 => s.push_str(&format!("# c{id} line\n")),
				3 => s.push_str(&format!("/* c{id}\n   second c{id} */\n")),
				_ => s.push_str(&format!("/* c{id} */\n")),
			}
		}
		if b < n {
			s.push_str(&toks[b]);
			s.push(' ');
		}
	}
	s
}

// ---------------------------------------------------------------------------------------------
// one case
// ---------------------------------------------------------------------------------------------

struct Run<'a> {
	w: CaseWriter,
	stats: BTreeMap<String, usize>,
	fmt_bin: Option<std::path::PathBuf>,
	opts: &'a Opts,
	bin_budget: usize,
}

impl Run<'_> {
	fn stat(&mut self, k: &str) {
		*self.stats.entry(k.to_owned()).or_default() += 1;
	}

	fn case(&mut self, src: &str, indent: u8, variant: &str, feats: &[&'static str], with_bin: bool) {
		let in_ast = match parse_ir(src) {
			Ok(a) => a,
			Err(e) => {
				if std::env::var_os("C19_SHOW_INVALID").is_some() && indent == 2 && (variant == "plain" || variant == "replay") {
					eprintln!("INVALID {src:?}\n   {e}");
				}
				self.stat("gen-not-valid(skipped)");
				if variant == "plain" && indent == 2 {
					for f in feats.iter().filter(|f| f.starts_with("text-block-")) {
						self.stat(&format!("not-valid-with:{f}"));
					}
				}
				if variant == "seed" && indent == 2 {
					self.stat(&format!("not-valid-seed:{src:?}"));
				}
				return;
			}
		};
		let in_toks = lex(src);
		let res = guarded(|| format(src, &FormatOptions { indent }).map_err(|_diag| ()));
		let mut op = json!({
			"op": "fmt.validate", "src": src, "indent": indent, "variant": variant, "feats": feats,
			"in_ast": in_ast, "in_toks": toks_json(&in_toks),
			"size": src.len(),
		});
		let o = op.as_object_mut().expect("object");
		let mut answer = json!({});
		match res {
			Err(p) => {
				o.insert("outcome".into(), json!("panic"));
				o.insert("panic".into(), json!(p));
				let nerr = guarded(|| jrsonnet_rowan_parser::parse(src).1.len()).unwrap_or(0);
				o.insert("rowan_errors".into(), json!(nerr));
				answer = json!({"panic": p});
				self.stat("outcome:panic");
			}
			Ok(Err(())) => {
				o.insert("outcome".into(), json!("declined"));
				o.insert("trivial".into(), json!(true));
				self.stat("outcome:declined");
			}
			Ok(Ok(out)) => {
				self.stat("outcome:formatted");
				o.insert("outcome".into(), json!("formatted"));
				o.insert("out".into(), json!(out));
				let out_toks = lex(&out);
				o.insert("out_toks".into(), toks_json(&out_toks));
				match parse_ir(&out) {
					Ok(a) => {
						o.insert("out_ast".into(), a);
					}
					Err(e) => {
						o.insert("out_ast".into(), Value::Null);
						o.insert("reparse_error".into(), json!(e));
						self.stat("reparse-error");
					}
				}
				// comments lost / position classes (informational; classifiers use it)
				let outc: Vec<&String> = out_toks.iter().filter(|t| is_comment(t.0)).map(|t| &t.1).collect();
				let n_in = in_toks.iter().filter(|t| is_comment(t.0)).count();
				if n_in > 0 {
					let sites = comment_sites(src);
					let key = |s: &str| s.split_whitespace().nth(1).unwrap_or("").trim_end_matches("*/").to_owned();
					let kept: Vec<String> = outc.iter().map(|s| key(s)).collect();
					let mut lost = Vec::new();
					for (text, parent, prev, next) in sites {
						if !kept.contains(&key(&text)) {
							lost.push(json!({"c": key(&text), "parent": parent, "prev": prev, "next": next}));
						}
					}
					o.insert("lost_comments".into(), Value::Array(lost));
				}
				// redundant: evaluate both with the real evaluator
				let ev_in = eval_json(&new_state(), src);
				let ev_out = eval_json(&new_state(), &out);
				let strip = |v: &Value| {
					let mut v = v.clone();
					if let Some(m) = v.as_object_mut() {
						m.remove("msg");
					}
					v
				};
				o.insert("eval_in".into(), strip(&ev_in));
				o.insert("eval_out".into(), strip(&ev_out));
				// binary vs library
				let mut bin = "skipped";
				if with_bin && indent == 2 && self.bin_budget > 0 {
					if let Some(b) = &self.fmt_bin {
						self.bin_budget -= 1;
						if let Ok(res) = Command::new(b).args(["-e", "--", src]).output() {
							let want = format!("{}\n", out.trim());
							bin = if res.status.success() && String::from_utf8_lossy(&res.stdout) == want {
								"agree"
							} else {
								"differ"
							};
							self.stat(&format!("bin:{bin}"));
						}
					}
				}
				o.insert("bin".into(), json!(bin));
				answer = json!({"formatted": true});
			}
		}
		self.w.case(op, answer);
	}
}

fn replay_src(path: &std::path::Path) -> Option<(String, u8)> {
	let text = std::fs::read_to_string(path).ok()?;
	if let Ok(v) = serde_json::from_str::<Value>(&text) {
		let op = v.get("op").unwrap_or(&v);
		if let Some(s) = op.get("src").and_then(Value::as_str) {
			let ind = op.get("indent").and_then(Value::as_u64).unwrap_or(2) as u8;
			return Some((s.to_owned(), ind));
		}
	}
	Some((text, 2))
}

/// inputs of the defects this property was written for, plus hand-written corner cases
const SEEDS: &[&str] = &[
	"local a = 1, b = 2; a",
	"local a = 1, b = 2, c = 3; a + b + c",
	"local f = function(x) x; f(1) tailstrict",
	"local f(x) = x; f(1) tailstrict",
	"~a[1:2:3]",
	"local a = [1, 2, 3, 4]; ~a[1:2:3]",
	"local a = [1, 2, 3, 4]; -a[0]",
	"!{ b: true }.b",
	"-{ k: 1 }.k",
	"-std.length([1])",
	"local f = function(x) x; f",
	"{ f: function(x) x }",
	"{ f(x): x }",
	"{ f+: function(x) x }",
	"{ local f = function(x) x, g: f(1) }",
	"{ assert true : 'm', a: 1 }",
	"{ assert true, a: 1 }",
	"[x for x in [1, 2, 3] if x > 1 for y in [1]]",
	"{ ['k' + x]: x for x in ['a', 'b'] }",
	"local y = ['a', 'b'], z = true; { ['k' + x]: x for x in y if z }",
	"local y = ['a', 'b'], z = true; { ['k' + x]: x for x in y for w in y if z if w == x }",
	"local y = [1, 2], z = true; [x for x in y if z]",
	"local x = ['p']; { [k]: a, local a = 1 for k in x }",
	"local x = ['p']; { local a = 1, [k]: a + b, local b = 2, for k in x if k != 'q' }",
	"[1, 2 // c\n]",
	"f(1, // c\n2)",
	"{ a: 1 // c\n}",
	"{ a: 1, # c\n b: 2 # d\n}",
	"local a = 1, // c\n b = 2 # d\n; a",
	"/** doc c1 */ { a: 1 }",
	"/**\n * doc c1\n * more c1\n */\n{ a: 1 }",
	"{ /* c1 */ a: 1, /* c2 */ b: 2 /* c3 */ } // c4",
	"\"a\nb\"",
	"@'a\nb'",
	"{ local w = 1, ['k' + x]: w for x in ['a', 'b'] if x != 'a' }",
	"{ a: 1 } { a+: 2, b: super.a, c: 'a' in super }",
	"local o = { a: 1 }; o { b: 2 }",
	"'abc'[0:2]",
	"[1, 2, 3][::]",
	"[1, 2, 3][1:]",
	"[1, 2, 3][:2]",
	"[1, 2, 3][::2]",
	"[1, 2, 3][1::2]",
	"[1, 2, 3][0:3:1]",
	"if true then 1",
	"if true then 1 else 2",
	"assert 1 == 1; 2",
	"assert 1 == 1 : 'msg'; 2",
	"error 'x'",
	"local i = import 'a.libsonnet', s = importstr \"b.txt\", b = importbin @'c.bin'; 1",
	"|||\n  a\n\n  b\n|||",
	"|||\n  a\n    \n  b\n|||",
	"|||\n  a\n   \n  b\n|||",
	"|||\n  a\n  \t\n  b\n|||",
	"|||\n  a\n   \t \n  b\n|||",
	"|||\n  a\n  \n  b\n|||",
	"|||\n\ta\n\t\t\n\tb\n|||",
	"|||\n\ta\n\t \n\tb\n|||",
	"|||-\n  a\n    \n|||",
	"|||-\n  a\n   \n\n|||",
	"|||\n  a  \n  b\t\n  c \t \n|||",
	"|||\n      deep first\n      same\n        deeper\n    |||",
	"|||\n    first\n  shallower\n|||",
	"|||\n  def f():\n      x = 1\n      \n      return x\n  \n  f()\n|||",
	"{ a: |||\n    x\n      \n    y\n  |||, b: [|||\n\tp\n\t\t\n\tq\n|||, { c: std.length(|||\n   m\n    \n   n\n|||) }] }",
	"{\n  a: {\n    b: [\n      |||\n        l1\n         \n\n        l2  \n      |||,\n    ],\n  },\n}",
	"local t = |||-\n  a\n   \n  b\n|||; [t, std.length(t)]",
	"(function(s) s)(|||\n  a\n  \t\n|||)",
	"std.length(|||\n \tmixed indent\n \t \n \tend\n|||)",
	"|||-\n\ta\tb\n\t\tc\n|||",
	"|||\n  a\n   b\n|||",
	"@\"a\"\"b\" + @'c''d' + \"e\\\"f\" + 'g\\'h'",
	"1 + 2 * 3 - 4 / 5 % 6",
	"(1 + 2) * 3",
	"1 - (2 - 3)",
	"1 << 2 >> 1 & 3 | 4 ^ 5",
	"1 < 2 && 2 <= 3 || 3 > 2 && !(3 >= 4) && 1 == 1 && 1 != 2",
	"'a' in { a: 1 }",
	"-1",
	"- -1",
	"!true",
	"~1",
	"+1",
	"-(1 + 2)",
	"-1 + 2",
	"function(a, b = 2) a + b",
	"(function(a, b = 2) a + b)(1, b = 3)",
	"(function(a, b = 2) a + b)(a = 1)",
	"std.map(function(x) x, [1])",
	"{ a: 1, b:: 2, c::: 3, d+: 4, e+:: 5, f+::: 6, 'g h': 7, \"i\": 8, ['j']: 9 }",
	"{ a: self.b, b: $.c, c: 1 }",
	"{ }",
	"[ ]",
	"{ a: { b: { c: [1, [2, [3]]] } } }.a.b.c[1][1][0]",
	"local a = 1; local b = 2; a + b",
	"local a = 1;\n\nlocal b = 2;\n\n\na + b",
	"{\n  a: 1,\n\n  b: 2,\n}",
	"[\n  1,\n  2,\n]",
	"f(\n  1,\n  2,\n)",
	"local f(a, b) = a + b; f(\n  1,\n  2,\n)",
	"null",
	"1e3 + 1.5 + 2E-2 + 0.25",
	"\"%d %s\" % [1, 'a']",
	"local f(x, y = 2) = x * y; f(3)",
	"local f(x, y = 2) = x * y, g = function(x) f(x, y = x); g(3) tailstrict",
	"{ m(x, y = 2):: x * y, r: self.m(2) }",
	"{ m():: 1, r: self.m() }",
	"local o = { f(x): x + 1 }; o.f(1)",
	"local o = { f: function(x) x + 1 }; o.f(1)",
];

pub fn run(opts: &Opts) {
	let w = CaseWriter::new(&opts.out);
	let fmt_bin = std::env::var_os("VERIF_BIN_DIR")
		.map(|d| std::path::PathBuf::from(d).join("jrsonnet-fmt"))
		.filter(|p| p.exists());
	let mut run = Run {
		w,
		stats: BTreeMap::new(),
		fmt_bin,
		opts,
		bin_budget: if opts.thorough() { 1500 } else { 150 },
	};
	let mut feats_total: BTreeMap<&'static str, usize> = BTreeMap::new();

	if let Some(p) = &opts.replay {
		if let Some((src, ind)) = replay_src(p) {
			run.case(&src, ind, "replay", &[], true);
		}
		let n = run.w.n;
		run.w.finish(json!({"engine":"c19","cases":n,"rule":"replay"}), &opts.out);
		return;
	}

	let mut rng = Rng::new(opts.seed ^ 0xC19);
	// 1. seeds: plain × {tabs,2,4}, and decorated
	for s in SEEDS {
		for ind in [2u8, 0, 4] {
			run.case(s, ind, "seed", &[], ind == 2);
		}
		let lexed = lex(s);
		if lexed.iter().any(|t| is_comment(t.0)) {
			continue;
		}
		let toks: Vec<String> = lexed
			.into_iter()
			.filter(|t| t.0 != SyntaxKind::WHITESPACE)
			.map(|t| t.1)
			.collect();
		for style in ["block", "slash", "hash", "mixed"] {
			let d = decorate(&toks, &mut rng, style, None);
			run.case(&d, 2, &format!("seed+{style}"), &[], false);
		}
	}
	// 2. generated programs
	let n_prog = if opts.thorough() { 6000 } else { 500 };
	for i in 0..n_prog {
		let depth = 1 + i % 4;
		let mut g = Gen::new(&mut rng);
		match i % 7 {
			6 => g.nested_text_block(),
			0 => g.num(depth),
			1 => g.obj(depth),
			2 => g.arr(depth),
			3 => g.string(depth),
			4 => g.boolean(depth),
			_ => g.any(depth),
		}
		let toks = std::mem::take(&mut g.t);
		let feats: Vec<&'static str> = g.feats.keys().copied().collect();
		for (k, v) in &g.feats {
			*feats_total.entry(k).or_default() += v;
		}
		drop(g);
		let plain = join(&toks, &mut rng, false);
		for ind in [2u8, 0, 4] {
			run.case(&plain, ind, "plain", &feats, ind == 2);
		}
		let broken = join(&toks, &mut rng, true);
		let ind = *rng.pick(&[0u8, 2, 4]);
		run.case(&broken, ind, "plain+newlines", &feats, false);
		let styles: &[&str] = if toks.len() <= 60 { &["block", "slash", "hash", "mixed"] } else { &["mixed"] };
		for style in styles {
			let d = decorate(&toks, &mut rng, style, None);
			let ind = *rng.pick(&[0u8, 2, 4]);
			run.case(&d, ind, &format!("gen+{style}"), &feats, false);
		}
	}
	// 3. tokens that span lines or contain tabs (strings with literal line breaks / tabs / CR /
	//    trailing blanks, `/* */` comments with tabs and differing indentation, text blocks with
	//    tabs / blank / whitespace-only lines), each at nesting depth 0..=3 under every indent
	//    setting: the family of the C20 engine, here against the validator (string VALUES and comment
	//    texts must survive).  Own PRNG stream: the corpora above stay what they were for a seed.
	let mut srng = Rng::new(opts.seed ^ 0xC19_5BA);
	let mut span_labels: BTreeMap<String, usize> = BTreeMap::new();
	for (i, sp) in super::c20::spanning_programs(&mut srng, if opts.thorough() { 2000 } else { 200 }).iter().enumerate() {
		let kind = sp.label.split('.').next().unwrap_or("?");
		*span_labels.entry(format!("{kind}.depth{}", sp.depth)).or_default() += 1;
		for ind in [2u8, 0, 4] {
			run.case(&sp.src, ind, &format!("span:{}:depth{}", sp.label, sp.depth), &[], ind == 2 && i % 16 == 0);
		}
	}
	// every short block comment text (see the C20 engine), one indent setting each
	for (i, sp) in super::c20::exhaustive_comment_programs(if opts.thorough() { 7 } else { 5 }).iter().enumerate() {
		*span_labels.entry(sp.label.clone()).or_default() += 1;
		run.case(&sp.src, [2u8, 0, 4][i / 3 % 3], &format!("span:{}", sp.label), &[], false);
	}
	let n = run.w.n;
	let stats = run.stats.clone();
	let _ = run.opts;
	run.w.finish(
		json!({
			"engine": "c19", "cases": n, "programs": n_prog, "seeds": SEEDS.len(),
			"stats": stats, "features": feats_total, "spanning": span_labels,
			"bin": run.fmt_bin.as_ref().map(|p| p.display().to_string()),
			"rule": "token-level typed generator over all constructs (depth 1..4) + hand-written seeds; each program plain x indent {tabs,2,4}, with random source line breaks, and decorated with block / // / # / mixed comments at every token boundary; plus the span family of the C20 engine (string literals, block and line comments and text blocks that span lines or contain tabs / CR / trailing blanks, at nesting depth 0..=3 x indent {tabs,2,4}; comments glued to every bracket kind and separator; every block comment text up to 5 (thorough: 7) characters over blank/tab/line break/`*`/`a`; no shape excluded); real format() -> re-parse with jrsonnet_ir_parser -> Lean validator",
		}),
		&opts.out,
	);
}
