//! C20 engine — "Formatting is idempotent and never crashes".
//!
//! Streams (all seeded from `Rng::new(opts.seed)`):
//!  * `fmt.diag`  — crash-freedom on arbitrary text: random byte strings, token soup over the full
//!    token vocabulary, mutated/truncated valid programs, a fixed boundary list.  The real
//!    `jrsonnet_formatter::format` runs in-process under `guarded`; the parse errors of the real
//!    rowan parser (ranges) travel to the Lean model, which predicts the outcome of the diagnostic
//!    branch (`Fmt.errorRange` + the hi-doc bound).
//!  * `fmt.idem`  — generated valid programs × indent {tabs, 2, 4}: `format(format(x)) == format(x)`
//!    and the second pass is accepted by the `--test` decision of the modelled `main_result`.
//!    A second, cheaper stream (`stress.*`, fixed point only) aims at the layout engine: programs
//!    written on ONE line (every bracket group goes through the printer's try-on-one-line logic) or on
//!    one line with line breaks inside empty bracket pairs / next to brackets, each also wrapped in a
//!    field, a call and an array behind a name of random length, so that the 100-column limit falls
//!    on different tokens of the same program.
//!  * `fmt.main`  — the `jrsonnet-fmt` binary against `FmtMain.run` (Lean) fed with the table of
//!    in-process `format` results: exit code and stdout for plain / `--test` / `--conv-limit` runs.
//!  * `fmt.deep`  — the binary on deeply nested input (separate process: stack exhaustion).
use std::collections::BTreeMap;
use std::io::Write as _;
use std::process::{Command, Stdio};

use jrsonnet_formatter::{format, FormatOptions};
use serde_json::json;

use crate::common::{guarded, CaseWriter, Opts, Rng};

// ------------------------------------------------------------------------------------------
// running the real code
// ------------------------------------------------------------------------------------------

/// outcome of one in-process `format` call
#[derive(Clone, Debug, PartialEq)]
pub enum Out {
	Ok(String),
	Diag,
	Panic(String),
}

fn run_format(src: &str, indent: u8) -> Out {
	match guarded(|| format(src, &FormatOptions { indent }).map_err(|_| ())) {
		Ok(Ok(s)) => Out::Ok(s),
		Ok(Err(())) => Out::Diag,
		Err(p) => Out::Panic(p),
	}
}

/// messages of the errors `jrsonnet_rowan_parser::parse` derives from the finished tree after
/// `Sink::finish` (lib.rs: duplicate_parameter_names, spaced_visibility_colons, comprehension_shape)
const POST_PASS_ERRORS: [&str; 5] = [
	"duplicate parameter name",
	"field visibility is a single token",
	"first compspec should be for",
	"compspecs can't be followed by comma",
	"missing object comprehension field",
];

/// what the real rowan parser + tree builder did with one text
pub struct Parsed {
	pub errs: Vec<(usize, usize)>,
	/// the errors the tree builder (`Sink::finish`) reported: `errs` without the ones `parse()`
	/// adds afterwards from the finished tree (`POST_PASS_ERRORS`; C06 compares that verdict with
	/// the evaluator's parsers)
	pub sink_errs: Vec<(usize, usize)>,
	/// pre-order of the real tree: [1,kind] open node, [2,kind,lo,hi] token, [3] close node
	pub ops: Vec<serde_json::Value>,
	/// the leaves of the tree are exactly the lexer's lexemes (kind and range, in order)
	pub yields: bool,
	/// events/lexemes handed to `Sink::new` (cfg(jrsonnet_verif) hook)
	pub record: Option<jrsonnet_rowan_parser::verif::ParseRecord>,
}

/// parse with the real rowan parser: Ok(Parsed) or the panic message
fn run_parse(src: &str) -> Result<Parsed, String> {
	use jrsonnet_rowan_parser::{rowan::{NodeOrToken, WalkEvent}, AstNode};
	let _ = jrsonnet_rowan_parser::verif::take_last_parse();
	guarded(|| {
		let (file, errors) = jrsonnet_rowan_parser::parse(src);
		let record = jrsonnet_rowan_parser::verif::take_last_parse();
		let errs = errors.iter().map(|e| (usize::from(e.range.start()), usize::from(e.range.end()))).collect();
		let sink_errs = errors
			.iter()
			.filter(|e| !POST_PASS_ERRORS.iter().any(|m| e.error.to_string().starts_with(m)))
			.map(|e| (usize::from(e.range.start()), usize::from(e.range.end())))
			.collect();
		let mut ops = Vec::new();
		let mut leaves: Vec<(u16, u32, u32)> = Vec::new();
		for ev in file.syntax().preorder_with_tokens() {
			match ev {
				WalkEvent::Enter(NodeOrToken::Node(n)) => ops.push(json!([1, n.kind().into_raw()])),
				WalkEvent::Enter(NodeOrToken::Token(t)) => {
					let r = t.text_range();
					let (lo, hi) = (u32::from(r.start()), u32::from(r.end()));
					ops.push(json!([2, t.kind().into_raw(), lo, hi]));
					leaves.push((t.kind().into_raw(), lo, hi));
				}
				WalkEvent::Leave(NodeOrToken::Node(_)) => ops.push(json!([3])),
				WalkEvent::Leave(NodeOrToken::Token(_)) => {}
			}
		}
		// independent of the hook: the lexer's own lexemes
		let lexed: Vec<(u16, u32, u32)> = jrsonnet_lexer::Lexer::new(src).map(|l| (l.kind.into_raw(), l.range.0 as u32, l.range.1 as u32)).collect();
		let text_ok = file.syntax().text().to_string() == src;
		Parsed { errs, sink_errs, ops, yields: leaves == lexed && text_ok, record }
	})
}

/// panic message → stable class name (used by classifiers and histograms)
fn panic_class(msg: &str) -> String {
	let table: [(&str, &str); 14] = [
		("expected L_PAREN", "parser:bump_assert-L_PAREN"),
		("Text::can_cast", "parser:import-text-assert"),
		("already at end", "parser:bump-at-end"),
		("seems like parsing is stuck", "parser:stuck"),
		("attempt to subtract with overflow", "arith:subtract-overflow"),
		("out of bounds annotation", "hi-doc:out-of-bounds-annotation"),
		("Found a tab in the string", "dprint:tab-in-string"),
		("Found a newline in the string", "dprint:newline-in-string"),
		("silently eaten token", "formatter:silently-eaten-token"),
		("formatting is not performed on code with parsing errors", "formatter:text-block-expect"),
		("all non-empty lines start with this padding", "formatter:comment-padding-expect"),
		("at least one spec is defined", "formatter:objcomp-no-spec"),
		("byte index", "str:byte-index"),
		("hard oob", "sink:hard-oob"),
	];
	for (needle, class) in table {
		if msg.contains(needle) {
			return class.to_string();
		}
	}
	let short: String = msg.chars().take(60).collect();
	format!("other:{short}")
}

// ------------------------------------------------------------------------------------------
// generators
// ------------------------------------------------------------------------------------------

const IDENTS: [&str; 8] = ["a", "b", "x", "y", "foo", "std", "self", "$"];
const STRINGS: [&str; 10] = [
	"\"s\"",
	"'t'",
	"\"\"",
	"\"a\\nb\"",
	"@\"v\"\"w\"",
	"@'q'",
	"\"é\"",
	"\"a b\"",
	"|||\n  text\n   more\n\n  end\n|||",
	"|||-\n\tt\n|||",
];
const NUMBERS: [&str; 6] = ["0", "1", "2.5", "1e3", "10", "1.0e-2"];
const BINOPS: [&str; 19] = [
	"+", "-", "*", "/", "%", "==", "!=", "<", "<=", ">", ">=", "&&", "||", "&", "|", "^", "<<", ">>", "in",
];
const UNOPS: [&str; 3] = ["-", "!", "~"];

/// token-level program generator; tokens are later joined by `layout`
struct Gen<'r> {
	rng: &'r mut Rng,
	toks: Vec<String>,
	/// rich = also use the constructs the rowan parser accepts beyond core (destructuring, `?.`)
	rich: bool,
}
impl Gen<'_> {
	fn t(&mut self, s: &str) {
		self.toks.push(s.to_string());
	}
	fn tp(&mut self, xs: &[&str]) {
		let i = self.rng.below(xs.len());
		self.toks.push(xs[i].to_string());
	}
	fn ident(&mut self) {
		let i = self.rng.below(5);
		self.t(IDENTS[i]);
	}
	fn expr(&mut self, d: usize) {
		let leaf = d == 0 || self.rng.chance(1, 4);
		if leaf {
			match self.rng.below(8) {
				0 => self.tp(&["null", "true", "false", "self", "$"]),
				1 | 2 => self.tp(&NUMBERS),
				3 | 4 => self.tp(&STRINGS),
				5 => {
					self.t("[");
					self.t("]");
				}
				6 => {
					self.t("{");
					self.t("}");
				}
				_ => self.ident(),
			}
			return;
		}
		match self.rng.below(20) {
			0 | 1 => self.array(d),
			2 | 3 | 4 => self.object(d),
			5 => {
				// local
				self.t("local");
				let n = 1 + self.rng.below(3);
				for i in 0..n {
					if i > 0 {
						self.t(",");
					}
					self.bind(d);
				}
				self.t(";");
				self.expr(d - 1);
			}
			6 => {
				self.t("if");
				self.expr(d - 1);
				self.t("then");
				self.expr(d - 1);
				if self.rng.chance(2, 3) {
					self.t("else");
					self.expr(d - 1);
				}
			}
			7 => {
				self.t("function");
				self.params(d);
				self.expr(d - 1);
			}
			8 => {
				self.t("error");
				self.expr(d - 1);
			}
			9 => {
				self.tp(&["import", "importstr", "importbin"]);
				self.tp(&["\"f.libsonnet\"", "'x'", "@\"p\""]);
			}
			10 => {
				self.tp(&UNOPS);
				self.expr(d - 1);
			}
			11 | 12 | 13 => {
				self.expr(d - 1);
				self.tp(&BINOPS);
				self.expr(d - 1);
			}
			14 => {
				self.t("(");
				self.expr(d - 1);
				self.t(")");
			}
			15 | 16 => {
				// suffixes
				self.ident();
				let n = 1 + self.rng.below(3);
				for _ in 0..n {
					self.suffix(d);
				}
			}
			17 => {
				// object extension
				self.ident();
				self.object(d);
			}
			18 => {
				self.t("assert");
				self.expr(d - 1);
				if self.rng.chance(1, 2) {
					self.t(":");
					self.expr(d - 1);
				}
				self.t(";");
				self.expr(d - 1);
			}
			_ => {
				self.t("super");
				self.t(".");
				self.ident();
			}
		}
	}
	fn suffix(&mut self, d: usize) {
		match self.rng.below(if self.rich { 7 } else { 6 }) {
			0 | 1 => {
				self.t(".");
				let i = self.rng.below(4);
				self.t(IDENTS[i]);
			}
			2 => {
				self.t("[");
				self.expr(d - 1);
				self.t("]");
			}
			3 => {
				self.t("[");
				if self.rng.chance(1, 2) {
					self.expr(d - 1);
				}
				self.t(":");
				if self.rng.chance(1, 2) {
					self.expr(d - 1);
				}
				if self.rng.chance(1, 3) {
					self.t(":");
					if self.rng.chance(1, 2) {
						self.expr(d - 1);
					}
				}
				self.t("]");
			}
			4 | 5 => {
				self.t("(");
				let n = self.rng.below(4);
				let named_from = self.rng.below(5);
				for i in 0..n {
					if i > 0 {
						self.t(",");
					}
					if i >= named_from {
						self.t(["p", "q", "r", "s"][i]);
						self.t("=");
					}
					self.expr(d - 1);
				}
				if n > 0 && self.rng.chance(1, 4) {
					self.t(",");
				}
				self.t(")");
				if self.rng.chance(1, 6) {
					self.t("tailstrict");
				}
			}
			_ => {
				self.t("?");
				self.t(".");
				let i = self.rng.below(4);
				self.t(IDENTS[i]);
			}
		}
	}
	fn params(&mut self, d: usize) {
		self.t("(");
		let n = self.rng.below(4);
		for i in 0..n {
			if i > 0 {
				self.t(",");
			}
			self.t(["p", "q", "r", "s"][i]);
			if self.rng.chance(1, 3) {
				self.t("=");
				self.expr(d - 1);
			}
		}
		if n > 0 && self.rng.chance(1, 5) {
			self.t(",");
		}
		self.t(")");
	}
	fn bind(&mut self, d: usize) {
		match self.rng.below(if self.rich { 6 } else { 4 }) {
			0 | 1 => {
				self.ident_plain();
				self.t("=");
				self.expr(d - 1);
			}
			2 => {
				self.ident_plain();
				self.params(d);
				self.t("=");
				self.expr(d - 1);
			}
			3 => {
				self.ident_plain();
				self.t("=");
				self.t("function");
				self.params(d);
				self.expr(d - 1);
			}
			4 => {
				self.t("[");
				self.t("a");
				self.t(",");
				self.t("...");
				self.t("]");
				self.t("=");
				self.expr(d - 1);
			}
			_ => {
				self.t("{");
				self.t("a");
				self.t(",");
				self.t("b");
				self.t("}");
				self.t("=");
				self.expr(d - 1);
			}
		}
	}
	fn ident_plain(&mut self) {
		let i = self.rng.below(5);
		self.t(["a", "b", "x", "y", "foo"][i]);
	}
	fn array(&mut self, d: usize) {
		self.t("[");
		if self.rng.chance(1, 5) {
			// comprehension
			self.expr(d - 1);
			if self.rng.chance(1, 4) {
				self.t(",");
			}
			self.compspecs(d);
		} else {
			let n = self.rng.below(5);
			for i in 0..n {
				if i > 0 {
					self.t(",");
				}
				self.expr(d - 1);
			}
			if n > 0 && self.rng.chance(1, 3) {
				self.t(",");
			}
		}
		self.t("]");
	}
	fn compspecs(&mut self, d: usize) {
		self.t("for");
		self.ident_plain();
		self.t("in");
		self.expr(d - 1);
		let n = self.rng.below(3);
		for _ in 0..n {
			if self.rng.chance(1, 2) {
				self.t("if");
				self.expr(d - 1);
			} else {
				self.t("for");
				self.ident_plain();
				self.t("in");
				self.expr(d - 1);
			}
		}
	}
	fn field_name(&mut self, d: usize) {
		match self.rng.below(6) {
			0 | 1 | 2 => self.ident_plain(),
			3 => self.tp(&["\"k\"", "'k 2'", "@\"v\""]),
			_ => {
				self.t("[");
				self.expr(d - 1);
				self.t("]");
			}
		}
	}
	fn object(&mut self, d: usize) {
		self.t("{");
		if self.rng.chance(1, 6) {
			// object comprehension
			if self.rng.chance(1, 3) {
				self.t("local");
				self.bind(d);
				self.t(",");
			}
			self.t("[");
			self.expr(d - 1);
			self.t("]");
			self.t(":");
			self.expr(d - 1);
			if self.rng.chance(1, 4) {
				self.t(",");
			}
			self.compspecs(d);
			self.t("}");
			return;
		}
		let n = self.rng.below(5);
		for i in 0..n {
			if i > 0 {
				self.t(",");
			}
			match self.rng.below(8) {
				0 => {
					self.t("local");
					self.bind(d);
				}
				1 => {
					self.t("assert");
					self.expr(d - 1);
					if self.rng.chance(1, 2) {
						self.t(":");
						self.expr(d - 1);
					}
				}
				2 => {
					self.field_name(d);
					self.params(d);
					self.tp(&[":", "::", ":::"]);
					self.expr(d - 1);
				}
				_ => {
					self.field_name(d);
					if self.rng.chance(1, 5) {
						self.t("+");
					}
					self.tp(&[":", ":", "::", ":::"]);
					self.expr(d - 1);
				}
			}
		}
		if n > 0 && self.rng.chance(1, 2) {
			self.t(",");
		}
		self.t("}");
	}
}

fn is_wordy(c: char) -> bool {
	c.is_alphanumeric() || c == '_' || c == '"' || c == '\'' || c == '@' || c == '$' || c == '|'
}
const TIGHT: [&str; 8] = ["(", ")", "[", "]", "{", "}", ",", ";"];
const COMMENTS: [&str; 12] = [
	" /* c */ ",
	" // line\n",
	" # hash\n",
	"\n// own line\n",
	"\n\n# para\n",
	"/* multi\n   line\n */",
	"\n/** doc\n * text\n */\n",
	"/**/",
	" //\n",
	"\n/*\n\tindented\n\t\tmore\n*/\n",
	"/* a\tb */",
	" // tab\there\n",
];

/// layout style: 0 = single spaces, 1 = mixed whitespace, 2 = whitespace + comments
fn layout(rng: &mut Rng, toks: &[String], style: usize) -> String {
	let mut s = String::new();
	if style == 2 && rng.chance(1, 6) {
		s.push_str(*rng.pick(&COMMENTS));
	}
	for (i, t) in toks.iter().enumerate() {
		if i > 0 {
			let prev = &toks[i - 1];
			let glue_ok = TIGHT.contains(&prev.as_str()) || TIGHT.contains(&t.as_str());
			let sep: &str = match style {
				0 => " ",
				_ => {
					let r = rng.below(100);
					if r < 45 {
						" "
					} else if r < 55 && glue_ok {
						""
					} else if r < 75 {
						"\n"
					} else if r < 80 {
						"\n\n"
					} else if r < 84 {
						"\n\n\n"
					} else if r < 88 {
						"\t"
					} else if r < 91 {
						"  \n  "
					} else if style == 2 {
						*rng.pick(&COMMENTS)
					} else {
						" "
					}
				}
			};
			// never glue two word-like tokens or build a different token by accident
			if sep.is_empty() {
				let a = prev.chars().last().unwrap_or(' ');
				let b = t.chars().next().unwrap_or(' ');
				if is_wordy(a) && is_wordy(b) {
					s.push(' ');
				}
			}
			s.push_str(sep);
		}
		s.push_str(t);
	}
	if style == 2 && rng.chance(1, 5) {
		s.push_str(*rng.pick(&COMMENTS));
	}
	if rng.chance(1, 2) {
		s.push('\n');
	}
	s
}

/// layout style "sparse": one line, except that line breaks (one or several) appear inside empty
/// bracket pairs, behind opening brackets, before closing ones and now and then elsewhere
fn layout_sparse(rng: &mut Rng, toks: &[String]) -> String {
	const OPEN: [&str; 3] = ["(", "[", "{"];
	const CLOSE: [&str; 3] = [")", "]", "}"];
	let mut s = String::new();
	for (i, t) in toks.iter().enumerate() {
		if i > 0 {
			let prev = toks[i - 1].as_str();
			let after_open = OPEN.contains(&prev);
			let before_close = CLOSE.contains(&t.as_str());
			let p = if after_open && before_close {
				50
			} else if after_open || before_close {
				12
			} else {
				2
			};
			if rng.below(100) < p {
				s.push_str(*rng.pick(&["\n", "\n", "\n\n", "\n\n\n", "  \n  "]));
			} else if after_open && before_close && rng.chance(1, 2) {
				// glued: `()`
			} else {
				s.push(' ');
			}
		}
		s.push_str(t);
	}
	s
}

/// layout style "commented": one line with a comment in every eighth gap (line comments end the line)
fn layout_commented(rng: &mut Rng, toks: &[String]) -> String {
	let mut s = String::new();
	for (i, t) in toks.iter().enumerate() {
		if i > 0 {
			if rng.chance(1, 8) {
				s.push_str(*rng.pick(&COMMENTS));
			} else {
				s.push(' ');
			}
		}
		s.push_str(t);
	}
	s
}

/// the program behind a prefix of `pad` columns: as a field value, an argument, an array element
fn wrap_program(kind: usize, pad: usize, src: &str) -> String {
	let name = "w".repeat(pad.max(1));
	match kind {
		0 => src.to_string(),
		1 => format!("{{ {name}: {src} }}"),
		2 => format!("{name}({src})"),
		_ => format!("[ \"{name}\", {src} ]"),
	}
}

fn width_bucket(text: &str) -> &'static str {
	let w = text.lines().map(|l| l.replace('\t', "   ").chars().count()).max().unwrap_or(0);
	match w {
		0..=79 => "0-79",
		80..=95 => "80-95",
		96..=100 => "96-100",
		_ => "101+",
	}
}

fn gen_program(rng: &mut Rng, depth: usize, rich: bool) -> Vec<String> {
	let mut g = Gen { rng, toks: Vec::new(), rich };
	g.expr(depth);
	g.toks
}

const VOCAB: [&str; 70] = [
	"x", "y", "1", "2.5", "\"s\"", "'t'", "@\"v\"", "|||\n a\n|||", "|||", "(", ")", "[", "]", "{", "}", ":",
	"::", ":::", ",", ".", ";", "=", "+", "-", "*", "/", "%", "!", "~", "==", "!=", "<", "<=", ">", ">=",
	"&&", "||", "&", "|", "^", "<<", ">>", "in", "if", "then", "else", "local", "for", "function",
	"import", "importstr", "importbin", "error", "assert", "self", "super", "$", "null", "true", "false",
	"tailstrict", "?", "...", "//c\n", "/*c*/", "#h\n", "/*", "\"", "\n", "\t",
];

const BOUNDARY: [&str; 64] = [
	"", " ", "\n", "\t", "+1", "+", "function", "function 1", "function(", "function(a", "import", "import a",
	"importstr", "importbin 1", "{", "{ a", "{ a:", "{ a: 1", "{ a: 1,", "{  )  \r", "{ a b c }", "{ a = 1 }",
	"{ local", "{ assert", "{ [", "{ a(", "{ a: function", "{a: function 1}", "local a = function 1; a",
	"local", "local a", "local a =", "local a = 1", "local a = 1;", "local a(", "[", "[1", "[1,", "[1 for",
	"[1 for x", "[1 for x in", "(", "()", "if", "if 1", "if 1 then", "if 1 then 2 else", "error", "-", "!",
	"a.", "a?", "a?.", "a[", "a[:", "a[1:2:", "a(", "a(b=", "/*", "/*/", "\"", "'", "|||", "|||\n",
];

// ------------------------------------------------------------------------------------------
// jrsonnet-fmt binary
// ------------------------------------------------------------------------------------------
pub struct BinOut {
	pub code: Option<i32>,
	pub stdout: String,
	pub panicked: bool,
	pub stderr_tail: String,
}
fn fmt_bin() -> Option<std::path::PathBuf> {
	let dir = std::env::var_os("VERIF_BIN_DIR")?;
	let p = std::path::PathBuf::from(dir).join("jrsonnet-fmt");
	p.exists().then_some(p)
}
fn run_bin(bin: &std::path::Path, src: &str, flags: &[String], dir: &std::path::Path) -> BinOut {
	// through a file: `-e` cannot carry texts starting with `-`
	let path = dir.join("c20_input.jsonnet");
	std::fs::File::create(&path).and_then(|mut f| f.write_all(src.as_bytes())).expect("write input");
	let out = Command::new(bin)
		.args(flags)
		.arg("--")
		.arg(&path)
		.env("RUST_BACKTRACE", "0")
		.stdin(Stdio::null())
		.output()
		.expect("spawn jrsonnet-fmt");
	let stderr = String::from_utf8_lossy(&out.stderr).to_string();
	let tail: String = stderr
		.lines()
		.filter(|l| !l.contains("is a prototype") && !l.contains("It is not expected"))
		.collect::<Vec<_>>()
		.join("\n");
	BinOut {
		code: out.status.code(),
		stdout: String::from_utf8_lossy(&out.stdout).to_string(),
		panicked: stderr.contains("panicked at") || out.status.code().is_none() || out.status.code() == Some(101),
		stderr_tail: tail.chars().take(300).collect(),
	}
}

// ------------------------------------------------------------------------------------------
// case emission
// ------------------------------------------------------------------------------------------
struct Ctx {
	w: CaseWriter,
	hist: BTreeMap<String, u64>,
	seen: std::collections::HashSet<String>,
}
impl Ctx {
	fn bump(&mut self, k: &str) {
		*self.hist.entry(k.to_string()).or_insert(0) += 1;
	}

	/// crash-freedom + diagnostic branch model.  Returns the outcome for indent 2.
	fn diag(&mut self, gen: &str, src: &str) -> Out {
		let out = run_format(src, 2);
		self.bump(&format!("gen.{gen}"));
		if !self.seen.insert(src.to_string()) {
			return out;
		}
		let parsed = run_parse(src);
		let (res, msg) = match &out {
			Out::Ok(_) => ("ok", String::new()),
			Out::Diag => ("diag", String::new()),
			Out::Panic(m) => ("panic", m.clone()),
		};
		self.bump(&format!("diag.{res}"));
		if let Out::Panic(m) = &out {
			self.bump(&format!("panic.{}", panic_class(m)));
		}
		let mut op = json!({"op":"fmt.diag","gen":gen,"t":src,"len":src.len(),"size":src.len()});
		match &parsed {
			Ok(p) => {
				op["errs"] = json!(p.errs.iter().map(|(s, e)| json!([s, e])).collect::<Vec<_>>());
			}
			Err(m) => {
				op["parse_panic"] = json!(panic_class(m));
			}
		}
		if matches!(parsed, Ok(ref p) if p.errs.is_empty()) && res == "ok" {
			// valid text, formatted: nothing for the diagnostic model to decide
			op["trivial"] = json!(true);
		}
		self.w.case(op, json!({"res": res, "_class": if msg.is_empty() { String::new() } else { panic_class(&msg) }, "_msg": msg.chars().take(200).collect::<String>()}));
		self.sink(gen, src, &parsed);
		out
	}

	/// event protocol + tree builder: the REAL event list and lexemes of this parse (hook) go to the
	/// Lean model of `Sink::finish`; its builder calls, error ranges and the yield of the tree are
	/// compared with the real tree.  `wf`: the model's well-formedness predicate must hold of every
	/// event list the real parser produces (the implementation side cannot compute it: constant).
	fn sink(&mut self, gen: &str, src: &str, parsed: &Result<Parsed, String>) {
		if src.len() > SINK_MAX_LEN {
			self.bump("sink.skipped-long");
			return;
		}
		let mut op = json!({"op":"fmt.sink","gen":gen,"t":src,"size":src.len()});
		match parsed {
			Ok(p) => {
				let Some(rec) = &p.record else {
					self.bump("sink.no-record");
					return;
				};
				use jrsonnet_rowan_parser::verif::VerifEvent as E;
				let ev: Vec<serde_json::Value> = rec
					.events
					.iter()
					.map(|e| match e {
						E::Pending => json!([0]),
						E::Start { kind, forward_parent } => json!([1, kind.into_raw(), forward_parent]),
						E::Token { kind } => json!([2, kind.into_raw()]),
						E::Finish { wrapper, error } => json!([3, wrapper, u8::from(*error)]),
						E::Noop => json!([4]),
					})
					.collect();
				let chain = rec.events.iter().filter(|e| matches!(e, E::Start { forward_parent, .. } if *forward_parent != 0)).count();
				let wrap = rec.events.iter().filter(|e| matches!(e, E::Finish { wrapper, .. } if *wrapper != 0)).count();
				self.bump(&format!("sink.events.{}", bucket(rec.events.len())));
				self.bump(&format!("sink.forward-parents.{}", bucket(chain)));
				self.bump(&format!("sink.wrappers.{}", bucket(wrap)));
				self.bump(if p.errs.is_empty() { "sink.errors.none" } else { "sink.errors.some" });
				op["ev"] = json!(ev);
				op["lx"] = json!(rec.lexemes.iter().map(|(k, lo, hi)| json!([k.into_raw(), lo, hi])).collect::<Vec<_>>());
				self.w.case(
					op,
					json!({"res":"ok","wf":true,"yield":p.yields,"ops":p.ops,
						"errs":p.sink_errs.iter().map(|(s, e)| json!([s, e])).collect::<Vec<_>>()}),
				);
			}
			Err(m) => {
				// parser or tree builder panicked: no event list; the reference meaning still applies
				self.bump("sink.panic");
				self.w.case(op, json!({"res":"panic","_class":panic_class(m)}));
			}
		}
	}

	/// one run of the real binary against the Lean model of `main_result`, fed with the table of
	/// in-process format results.  Returns stdout if the exit code was 0.
	#[allow(clippy::too_many_arguments)]
	fn main_case(&mut self, bin: &std::path::Path, dir: &std::path::Path, gen: &str, src: &str, indent: u8, hard: bool,
		limit: usize, test: bool, expect_accept: Option<&str>) -> Option<String> {
		let mut flags: Vec<String> = vec!["--indent".into(), indent.to_string(), "--conv-limit".into(), limit.to_string()];
		if hard {
			flags.push("--hard-tabs".into());
		}
		if test {
			flags.push("--test".into());
		}
		let r = run_bin(bin, src, &flags, dir);
		// tables for the effective indents the flags could mean (the model picks one)
		let mut tables = serde_json::Map::new();
		for eff in [0u8, indent] {
			let mut rows = Vec::new();
			let mut cur = src.to_string();
			for _ in 0..limit + 2 {
				match run_format(&cur, eff) {
					Out::Ok(f) => {
						let t = f.trim().to_owned();
						rows.push(json!([cur, t]));
						if t == cur {
							break;
						}
						cur = t;
					}
					Out::Diag => {
						rows.push(json!([cur, null]));
						break;
					}
					Out::Panic(_) => break,
				}
			}
			tables.insert(eff.to_string(), json!(rows));
		}
		self.bump(&format!("main.{gen}.code{}", r.code.map_or("-signal".to_string(), |c| c.to_string())));
		let mut op = json!({"op":"fmt.main","gen":gen,"input":src,"indent":indent,"hard_tabs":hard,"limit":limit,"test":test,
			"tables":tables,"size":src.len()});
		if let Some(y) = expect_accept {
			op["expect"] = json!({"code":0,"stdout":y});
		}
		self.w.case(op, json!({"code": r.code.unwrap_or(255), "stdout": r.stdout, "_stderr": r.stderr_tail}));
		(r.code == Some(0)).then_some(r.stdout)
	}

	/// fixed point for one valid program and one indent setting
	fn idem(&mut self, gen: &str, src: &str, indent: u8) -> Option<String> {
		let f1 = match run_format(src, indent) {
			Out::Ok(f1) => f1,
			Out::Diag => return None,
			Out::Panic(m) => {
				// a panic of the first pass under THIS indent setting (`diag` only runs indent 2)
				self.bump(&format!("idem.indent{indent}.first-pass-panic"));
				self.w.case(
					json!({"op":"fmt.idem","gen":gen,"t":src,"indent":indent,"once":"","size":src.len()}),
					json!({"res":"panic","twice":"","_pass":1,"_msg":m.chars().take(200).collect::<String>(),"_class":panic_class(&m)}),
				);
				return None;
			}
		};
		let twice = run_format(&f1, indent);
		let (res, f2, msg) = match twice {
			Out::Ok(s) => ("ok", s, String::new()),
			Out::Diag => ("diag", String::new(), String::new()),
			Out::Panic(m) => ("panic", String::new(), m),
		};
		self.bump(&format!("idem.indent{indent}.{}", if res == "ok" && f2 == f1 { "fixpoint" } else if res == "ok" { "changed" } else { res }));
		// passes until the text stops changing (1 = `once` already is a fixed point; 99 = not within 4)
		let mut conv = 99;
		if res == "ok" {
			let (mut prev, mut cur) = (f1.clone(), f2.clone());
			for k in 1..=4 {
				if prev == cur {
					conv = k;
					break;
				}
				match run_format(&cur, indent) {
					Out::Ok(next) => {
						prev = cur;
						cur = next;
					}
					_ => break,
				}
			}
		}
		self.bump(&format!("idem.passes-to-settle.{conv}"));
		let mut op = json!({"op":"fmt.idem","gen":gen,"t":src,"indent":indent,"once":f1,"size":src.len()});
		if res == "ok" && f2 != f1 {
			// the real lexer's lexemes (kind, text) of both passes: Lean decides "same code tokens"
			op["once_lx"] = lexemes_json(&f1);
			op["twice_lx"] = lexemes_json(&f2);
		}
		self.w.case(
			op,
			json!({"res":res,"twice":f2,"_conv":conv,"_msg":msg.chars().take(200).collect::<String>(),
				"_class": if msg.is_empty() { String::new() } else { panic_class(&msg) }}),
		);
		Some(f1)
	}
}

const SINK_MAX_LEN: usize = 700;

fn lexemes_json(src: &str) -> serde_json::Value {
	json!(jrsonnet_lexer::Lexer::new(src).map(|l| json!([l.kind.into_raw(), l.text])).collect::<Vec<_>>())
}

/// Regression corpus: one minimal witness per layout defect repaired so far (the round-4 `fix:`
/// commits of the formatter; found by delta-debugging generated programs against the formatter as
/// it was).  They run first on every check, under every indent setting, and must be fixed points.
const REPAIRED_WITNESSES: [(&str, &str); 21] = [
	("stale-extent.inline-group-around-forced-break", "{'':1,[{}]:r,[[]]:x[:]|[assert\"\";1]}"),
	("stale-extent.empty-args-with-blank-lines", "{assert\nsuper,[[{\"k\":@'q'}]](p=[[{foo:10,local  \n  a=[]}[\"a b\"]]],q=assert null;local\n\n\ny=[[]],y=b;y):local y=[],foo={local y(q=\"é\")={},assert[],a:0},x(p=if{[@\"v\"\"w\"]:[]}then@\"p\")=[]>[]{};{},[(2)(\n\n)[:]/$]:y,foo:{[super]:local a()={a:5};null,foo:'t',assert function()[]:foo}}"),
	("break-in-earlier-group.args", "x(b,r=[\".libsonnet\",x in importbin\"f.libsonnet\"])([@'q'(p,q,r)[101e3],importbin\"f.libsonnet\"]{[\"\"]:''})"),
	("break-in-earlier-group.args", "x(b,[importbin\"f.libsonnet\"for x in importstr@\"p\"if importbin\"f.libsonnet\"])([@'q'==function()[]]{[\"a\\nb\"]:$,y:@'q'}())"),
	("break-in-earlier-group.array", "{[[[error\"a\\nb\"for y in{}for a in{}],\"a\\nb\",10(import\"f.libsonnet\")]]:[local a='t';c]for b in[{[5]:1}][y]}"),
	("group-spans-lines-after-all", "local x = [a, b] + \"aaaaaaaaaaaaaaaaaaaaaaaaaaaaaaaaaaaaaaaaaaaaaaaaaaaaaaaaaaaaaaaaaaaaaaaaaaaaaaaaaaaaaaaaaaaaaaaaaaaaaaaaaaaaaa\"; x"),
	("group-spans-lines-after-all", "local x = f(a) + \"aaaaaaaaaaaaaaaaaaaaaaaaaaaaaaaaaaaaaaaaaaaaaaaaaaaaaaaaaaaaaaaaaaaaaaaaaaaaaaaaaaaaaaaaaaaaaaaaaaaaaaaaaaaaaa\"; x"),
	("expanded-args-joined", "{a(p={assert function()local o='';\"\"},r={[{[{}]:b}]:{}}):([]),@\"v\":[[foo{[2. ]:::\"a\\nb\",[$]+:::0,b+:self,[null]:\"a\\nb\"},@'q',x[\"s\":]]for a in a(x)[3]]}"),
	("args-end-comments", "a(/* c */)"),
	("args-end-comments", "a()(\n\n// own line\n) tailstrict"),
	("args-end-comments", "f(a, // d\n b\n\n// c\n)"),
	("objcomp-end-comments", "{ [a]: 1 for b in c\n// own line\n}"),
	("objcomp-end-comments", "{ [a]: 1 for b in c\n\n# para\n\n}"),
	("slice-second-colon-comment", "y[:1:/* c */]"),
	("local-keyword-comment", "(local // c\na = 1; a)"),
	("local-keyword-comment", "(local # c\na = 1; a)"),
	("local-keyword-comment", "f(r = local/* a b */b ( )= { } ; 1)"),
	("local-keyword-comment", "local\n// own line\nfoo ( p\n)\t=\nfoo;\n10"),
	("blank-lines-in-brackets", "f(\n\n\n1)"),
	("blank-lines-in-brackets", "x(\n\n)[:[ ]]"),
	("blank-lines-in-brackets", "[\n\n]"),
];

fn bucket(n: usize) -> &'static str {
	match n {
		0 => "0",
		1..=3 => "1-3",
		4..=15 => "4-15",
		16..=63 => "16-63",
		64..=255 => "64-255",
		_ => "256+",
	}
}

fn random_bytes(rng: &mut Rng) -> String {
	let n = rng.below(24);
	let bytes: Vec<u8> = (0..n)
		.map(|_| {
			if rng.chance(3, 4) {
				// printable ASCII biased towards Jsonnet punctuation
				*rng.pick(b"{}[]():;,.=+-*/%!~<>&|^?$@#'\"\\ \n\t\rabcxyz0123456789_")
			} else {
				rng.below(256) as u8
			}
		})
		.collect();
	String::from_utf8_lossy(&bytes).to_string()
}

fn truncate_at(src: &str, at: usize) -> &str {
	let mut i = at.min(src.len());
	while !src.is_char_boundary(i) {
		i -= 1;
	}
	&src[..i]
}

pub fn run(opts: &Opts) {
	let mut rng = Rng::new(opts.seed);
	let mut c = Ctx { w: CaseWriter::new(&opts.out), hist: BTreeMap::new(), seen: Default::default() };
	let thorough = opts.thorough();
	let (n_bytes, n_soup, n_prog, n_mut) = if thorough { (6000, 12000, 2500, 8) } else { (1500, 3000, 500, 4) };

	// ---- fixed corpus: one minimal witness per repaired layout defect (always first) ----
	for (defect, src) in REPAIRED_WITNESSES {
		c.diag("witness", src);
		for indent in [0u8, 2, 4] {
			c.idem(&format!("witness.{defect}"), src, indent);
		}
	}
	// ---- boundary list ----
	for s in BOUNDARY {
		c.diag("boundary", s);
	}
	// ---- random byte strings ----
	for _ in 0..n_bytes {
		let s = random_bytes(&mut rng);
		c.diag("bytes", &s);
	}
	// ---- token soup ----
	for _ in 0..n_soup {
		let n = 1 + rng.below(9);
		let toks: Vec<String> = (0..n).map(|_| (*rng.pick(&VOCAB)).to_string()).collect();
		let s = layout(&mut rng, &toks, 1);
		c.diag("soup", &s);
	}
	// ---- valid programs, their mutations, fixed point ----
	let mut valid = 0u64;
	let mut programs: Vec<String> = Vec::new();
	for i in 0..n_prog {
		let depth = 1 + rng.below(4);
		let toks = gen_program(&mut rng, depth, i % 4 == 3);
		let style = i % 3;
		let src = layout(&mut rng, &toks, style);
		let out = c.diag(&format!("program.style{style}"), &src);
		if matches!(out, Out::Ok(_)) {
			valid += 1;
			for indent in [0u8, 2, 4] {
				c.idem(&format!("program.style{style}"), &src, indent);
			}
			if programs.len() < 64 {
				programs.push(src.clone());
			}
		}
		// mutations: drop / duplicate / replace a token, truncate the text
		for _ in 0..n_mut {
			let mut t = toks.clone();
			let k = rng.below(t.len());
			match rng.below(4) {
				0 => {
					t.remove(k);
				}
				1 => {
					let x = t[k].clone();
					t.insert(k, x);
				}
				2 => t[k] = (*rng.pick(&VOCAB)).to_string(),
				_ => t.truncate(k),
			}
			let m = layout(&mut rng, &t, 1);
			c.diag("mutant", &m);
			let cut = rng.below(src.len() + 1);
			c.diag("truncated", truncate_at(&src, cut));
		}
	}
	c.hist.insert("programs.valid".into(), valid);

	// ---- layout stress: the fixed-point clause only (no diagnostics model, no mutants) ----
	let n_stress = if thorough { 2400 } else { 800 };
	for i in 0..n_stress {
		// programs long enough to need more than one line
		let mut toks = Vec::new();
		for _ in 0..6 {
			let depth = 2 + rng.below(3);
			toks = gen_program(&mut rng, depth, i % 4 == 3);
			if toks.len() >= 24 {
				break;
			}
		}
		let (style, src) = match i % 5 {
			0 | 2 => ("line", layout(&mut rng, &toks, 0)),
			1 | 3 => ("sparse", layout_sparse(&mut rng, &toks)),
			_ => ("commented", layout_commented(&mut rng, &toks)),
		};
		let src = src.trim_end().to_string();
		for kind in 0..4usize {
			let pad = if kind == 0 { 0 } else { 1 + rng.below(70) };
			let text = wrap_program(kind, pad, &src);
			let indent = [0u8, 2, 4][(i + kind) % 3];
			match c.idem(&format!("stress.{style}.wrap{kind}"), &text, indent) {
				Some(once) => {
					c.bump(&format!("stress.{style}.valid"));
					c.bump(&format!("stress.widest-line.{}", width_bucket(&once)));
				}
				None => {
					// a syntax error of the generated text (a first-pass panic has been recorded by `idem`)
					c.bump(&format!("stress.{style}.rejected"));
					if kind == 0 {
						break;
					}
				}
			}
		}
	}

	// ---- the jrsonnet-fmt binary against FmtMain (Lean) ----
	if let Some(bin) = fmt_bin() {
		let mut inputs: Vec<String> = programs.iter().take(if thorough { 64 } else { 24 }).cloned().collect();
		for s in ["", "+1", "{", "local a = 1;", "{ a: 1 }", "{ a: 1 }\n", "{a:1}\n", "[1,\n2]", "  1  \n\n", "1", "1\n", "// c\n1\n",
			"local a = -1; !a", "{a: 1 for x in y if z}", "f(x) tailstrict"] {
			inputs.push(s.to_string());
		}
		for (k, src) in inputs.iter().enumerate() {
			// (indent, hard_tabs, conv_limit, test)
			let combos: [(u8, bool, usize, bool); 6] =
				[(2, false, 0, false), (4, false, 0, false), (0, false, 0, false), (2, true, 0, false), (2, false, 3, false), (2, false, 0, true)];
			for (ci, &(indent, hard, limit, test)) in combos.iter().enumerate() {
				if ci >= 2 && ci <= 4 && k % 3 != 0 {
					continue; // the rarer flag combinations on a third of the inputs
				}
				let out = c.main_case(&bin, &opts.out, "main", src, indent, hard, limit, test, None);
				// what plain jrsonnet-fmt printed must be accepted by --test, same settings
				if let (false, Some(y)) = (test, out) {
					c.main_case(&bin, &opts.out, "produce-then-test", &y, indent, hard, limit, true, Some(&y));
					if limit == 0 && k % 3 == 0 {
						c.main_case(&bin, &opts.out, "produce-then-test-conv", &y, indent, hard, 2, true, Some(&y));
					}
				}
			}
		}
		// ---- nesting depth (own process: stack exhaustion cannot be caught in-process) ----
		for n in [64usize, 200, 255, 256, 300, 3000] {
			for (open, close) in [("[", "]"), ("(", ")")] {
				let src = format!("{}1{}", open.repeat(n), close.repeat(n));
				let r = run_bin(&bin, &src, &[], &opts.out);
				let res = if r.code == Some(0) {
					"ok"
				} else if r.code == Some(1) {
					"diag"
				} else if r.code == Some(101) {
					"panic"
				} else {
					"abort"
				};
				c.bump(&format!("deep.{res}"));
				c.w.case(
					json!({"op":"fmt.deep","n":n,"open":open,"size":2*n+1}),
					json!({"res":res,"_msg":r.stderr_tail.chars().take(240).collect::<String>()}),
				);
			}
		}
	} else {
		c.bump("main.binary-missing");
	}

	let hist = c.hist.clone();
	let n = c.w.n;
	c.w.finish(
		json!({"engine":"c20","cases":n,"hist":hist,
			"rule":"format() guarded on boundary/bytes/token-soup/mutants/truncations (diagnostic-branch outcome vs Lean model); format∘format = format on generated valid programs × indent {tabs,2,4}; jrsonnet-fmt binary vs FmtMain.run"}),
		&opts.out,
	);
}
