//! C20 engine — "Formatting is idempotent and never crashes".
//!
//! Streams (all seeded from `Rng::new(opts.seed)`):
//!  * `fmt.diag`  — crash-freedom on arbitrary text: random byte strings, token soup over the full
//!    token vocabulary, mutated/truncated valid programs, a fixed boundary list.  The real
//!    `jrsonnet_formatter::format` runs in-process under `guarded`; the parse errors of the real
//!    rowan parser (ranges) travel to the Lean model, which predicts the outcome of the diagnostic
//!    branch (`Fmt.errorRange` + the hi-doc bound).
//!  * `fmt.idem`  — generated valid programs × indent {tabs, 2, 4}: `format(format(x)) == format(x)`
//!    and the second pass is accepted by the `--test` decision of the modelled `main_result`.
//!    A second, cheaper stream (`stress.*`, fixed point only) aims at the layout engine: programs
//!    written on ONE line (every bracket group goes through the printer's try-on-one-line logic) or on
//!    one line with line breaks inside empty bracket pairs / next to brackets, each also wrapped in a
//!    field, a call and an array behind a name of random length, so that the 100-column limit falls
//!    on different tokens of the same program.
//!    A third stream (`span.*`, fixed point only) is about TOKENS that span lines or contain tabs:
//!    quoted / verbatim strings with literal line breaks, tabs, CR and trailing blanks, `/* */`
//!    comments with tabs and differing indentation, text blocks with tabs / blank / whitespace-only
//!    lines — every enumerated shape at nesting depth 0..=3 under every indent setting.
//!  * `fmt.main`  — the `jrsonnet-fmt` binary against `FmtMain.run` (Lean) fed with the table of
//!    in-process `format` results: exit code and stdout for plain / `--test` / `--conv-limit` runs.
//!  * `fmt.deep`  — the binary on deeply nested input (separate process: stack exhaustion).
use std::collections::BTreeMap;
use std::io::Write as _;
use std::process::{Command, Stdio};

use jrsonnet_formatter::{format, FormatOptions};
use serde_json::json;

use crate::common::{guarded, CaseWriter, Opts, Rng};

// ------------------------------------------------------------------------------------------
// running the real code
// ------------------------------------------------------------------------------------------

/// outcome of one in-process `format` call
#[derive(Clone, Debug, PartialEq)]
pub enum Out {
	Ok(String),
	Diag,
	Panic(String),
}

fn run_format(src: &str, indent: u8) -> Out {
	match guarded(|| format(src, &FormatOptions { indent }).map_err(|_| ())) {
		Ok(Ok(s)) => Out::Ok(s),
		Ok(Err(())) => Out::Diag,
		Err(p) => Out::Panic(p),
	}
}

/// messages of the errors `jrsonnet_rowan_parser::parse` derives from the finished tree after
/// `Sink::finish` (lib.rs: duplicate_parameter_names, spaced_visibility_colons, comprehension_shape)
const POST_PASS_ERRORS: [&str; 5] = [
	"duplicate parameter name",
	"field visibility is a single token",
	"first compspec should be for",
	"compspecs can't be followed by comma",
	"missing object comprehension field",
];

/// what the real rowan parser + tree builder did with one text
pub struct Parsed {
	pub errs: Vec<(usize, usize)>,
	/// the errors the tree builder (`Sink::finish`) reported: `errs` without the ones `parse()`
	/// adds afterwards from the finished tree (`POST_PASS_ERRORS`; C06 compares that verdict with
	/// the evaluator's parsers)
	pub sink_errs: Vec<(usize, usize)>,
	/// pre-order of the real tree: [1,kind] open node, [2,kind,lo,hi] token, [3] close node
	pub ops: Vec<serde_json::Value>,
	/// the leaves of the tree are exactly the lexer's lexemes (kind and range, in order)
	pub yields: bool,
	/// events/lexemes handed to `Sink::new` (cfg(jrsonnet_verif) hook)
	pub record: Option<jrsonnet_rowan_parser::verif::ParseRecord>,
}

/// parse with the real rowan parser: Ok(Parsed) or the panic message
fn run_parse(src: &str) -> Result<Parsed, String> {
	use jrsonnet_rowan_parser::{rowan::{NodeOrToken, WalkEvent}, AstNode};
	let _ = jrsonnet_rowan_parser::verif::take_last_parse();
	guarded(|| {
		let (file, errors) = jrsonnet_rowan_parser::parse(src);
		let record = jrsonnet_rowan_parser::verif::take_last_parse();
		let errs = errors.iter().map(|e| (usize::from(e.range.start()), usize::from(e.range.end()))).collect();
		let sink_errs = errors
			.iter()
			.filter(|e| !POST_PASS_ERRORS.iter().any(|m| e.error.to_string().starts_with(m)))
			.map(|e| (usize::from(e.range.start()), usize::from(e.range.end())))
			.collect();
		let mut ops = Vec::new();
		let mut leaves: Vec<(u16, u32, u32)> = Vec::new();
		for ev in file.syntax().preorder_with_tokens() {
			match ev {
				WalkEvent::Enter(NodeOrToken::Node(n)) => ops.push(json!([1, n.kind().into_raw()])),
				WalkEvent::Enter(NodeOrToken::Token(t)) => {
					let r = t.text_range();
					let (lo, hi) = (u32::from(r.start()), u32::from(r.end()));
					ops.push(json!([2, t.kind().into_raw(), lo, hi]));
					leaves.push((t.kind().into_raw(), lo, hi));
				}
				WalkEvent::Leave(NodeOrToken::Node(_)) => ops.push(json!([3])),
				WalkEvent::Leave(NodeOrToken::Token(_)) => {}
			}
		}
		// independent of the hook: the lexer's own lexemes
		let lexed: Vec<(u16, u32, u32)> = jrsonnet_lexer::Lexer::new(src).map(|l| (l.kind.into_raw(), l.range.0 as u32, l.range.1 as u32)).collect();
		let text_ok = file.syntax().text().to_string() == src;
		Parsed { errs, sink_errs, ops, yields: leaves == lexed && text_ok, record }
	})
}

/// panic message → stable class name (used by classifiers and histograms)
fn panic_class(msg: &str) -> String {
	let table: [(&str, &str); 14] = [
		("expected L_PAREN", "parser:bump_assert-L_PAREN"),
		("Text::can_cast", "parser:import-text-assert"),
		("already at end", "parser:bump-at-end"),
		("seems like parsing is stuck", "parser:stuck"),
		("attempt to subtract with overflow", "arith:subtract-overflow"),
		("out of bounds annotation", "hi-doc:out-of-bounds-annotation"),
		("Found a tab in the string", "dprint:tab-in-string"),
		("Found a newline in the string", "dprint:newline-in-string"),
		("silently eaten token", "formatter:silently-eaten-token"),
		("formatting is not performed on code with parsing errors", "formatter:text-block-expect"),
		("all non-empty lines start with this padding", "formatter:comment-padding-expect"),
		("at least one spec is defined", "formatter:objcomp-no-spec"),
		("byte index", "str:byte-index"),
		("hard oob", "sink:hard-oob"),
	];
	for (needle, class) in table {
		if msg.contains(needle) {
			return class.to_string();
		}
	}
	let short: String = msg.chars().take(60).collect();
	format!("other:{short}")
}

// ------------------------------------------------------------------------------------------
// generators
// ------------------------------------------------------------------------------------------

const IDENTS: [&str; 8] = ["a", "b", "x", "y", "foo", "std", "self", "$"];
const STRINGS: [&str; 10] = [
	"\"s\"",
	"'t'",
	"\"\"",
	"\"a\\nb\"",
	"@\"v\"\"w\"",
	"@'q'",
	"\"é\"",
	"\"a b\"",
	"|||\n  text\n   more\n\n  end\n|||",
	"|||-\n\tt\n|||",
];
const NUMBERS: [&str; 6] = ["0", "1", "2.5", "1e3", "10", "1.0e-2"];
const BINOPS: [&str; 19] = [
	"+", "-", "*", "/", "%", "==", "!=", "<", "<=", ">", ">=", "&&", "||", "&", "|", "^", "<<", ">>", "in",
];
const UNOPS: [&str; 3] = ["-", "!", "~"];

/// token-level program generator; tokens are later joined by `layout`
struct Gen<'r> {
	rng: &'r mut Rng,
	toks: Vec<String>,
	/// rich = also use the constructs the rowan parser accepts beyond core (destructuring, `?.`)
	rich: bool,
}
impl Gen<'_> {
	fn t(&mut self, s: &str) {
		self.toks.push(s.to_string());
	}
	fn tp(&mut self, xs: &[&str]) {
		let i = self.rng.below(xs.len());
		self.toks.push(xs[i].to_string());
	}
	fn ident(&mut self) {
		let i = self.rng.below(5);
		self.t(IDENTS[i]);
	}
	fn expr(&mut self, d: usize) {
		let leaf = d == 0 || self.rng.chance(1, 4);
		if leaf {
			match self.rng.below(8) {
				0 => self.tp(&["null", "true", "false", "self", "$"]),
				1 | 2 => self.tp(&NUMBERS),
				3 | 4 => self.tp(&STRINGS),
				5 => {
					self.t("[");
					self.t("]");
				}
				6 => {
					self.t("{");
					self.t("}");
				}
				_ => self.ident(),
			}
			return;
		}
		match self.rng.below(20) {
			0 | 1 => self.array(d),
			2 | 3 | 4 => self.object(d),
			5 => {
				// local
				self.t("local");
				let n = 1 + self.rng.below(3);
				for i in 0..n {
					if i > 0 {
						self.t(",");
					}
					self.bind(d);
				}
				self.t(";");
				self.expr(d - 1);
			}
			6 => {
				self.t("if");
				self.expr(d - 1);
				self.t("then");
				self.expr(d - 1);
				if self.rng.chance(2, 3) {
					self.t("else");
					self.expr(d - 1);
				}
			}
			7 => {
				self.t("function");
				self.params(d);
				self.expr(d - 1);
			}
			8 => {
				self.t("error");
				self.expr(d - 1);
			}
			9 => {
				self.tp(&["import", "importstr", "importbin"]);
				self.tp(&["\"f.libsonnet\"", "'x'", "@\"p\""]);
			}
			10 => {
				self.tp(&UNOPS);
				self.expr(d - 1);
			}
			11 | 12 | 13 => {
				self.expr(d - 1);
				self.tp(&BINOPS);
				self.expr(d - 1);
			}
			14 => {
				self.t("(");
				self.expr(d - 1);
				self.t(")");
			}
			15 | 16 => {
				// suffixes
				self.ident();
				let n = 1 + self.rng.below(3);
				for _ in 0..n {
					self.suffix(d);
				}
			}
			17 => {
				// object extension
				self.ident();
				self.object(d);
			}
			18 => {
				self.t("assert");
				self.expr(d - 1);
				if self.rng.chance(1, 2) {
					self.t(":");
					self.expr(d - 1);
				}
				self.t(";");
				self.expr(d - 1);
			}
			_ => {
				self.t("super");
				self.t(".");
				self.ident();
			}
		}
	}
	fn suffix(&mut self, d: usize) {
		match self.rng.below(if self.rich { 7 } else { 6 }) {
			0 | 1 => {
				self.t(".");
				let i = self.rng.below(4);
				self.t(IDENTS[i]);
			}
			2 => {
				self.t("[");
				self.expr(d - 1);
				self.t("]");
			}
			3 => {
				self.t("[");
				if self.rng.chance(1, 2) {
					self.expr(d - 1);
				}
				self.t(":");
				if self.rng.chance(1, 2) {
					self.expr(d - 1);
				}
				if self.rng.chance(1, 3) {
					self.t(":");
					if self.rng.chance(1, 2) {
						self.expr(d - 1);
					}
				}
				self.t("]");
			}
			4 | 5 => {
				self.t("(");
				let n = self.rng.below(4);
				let named_from = self.rng.below(5);
				for i in 0..n {
					if i > 0 {
						self.t(",");
					}
					if i >= named_from {
						self.t(["p", "q", "r", "s"][i]);
						self.t("=");
					}
					self.expr(d - 1);
				}
				if n > 0 && self.rng.chance(1, 4) {
					self.t(",");
				}
				self.t(")");
				if self.rng.chance(1, 6) {
					self.t("tailstrict");
				}
			}
			_ => {
				self.t("?");
				self.t(".");
				let i = self.rng.below(4);
				self.t(IDENTS[i]);
			}
		}
	}
	fn params(&mut self, d: usize) {
		self.t("(");
		let n = self.rng.below(4);
		for i in 0..n {
			if i > 0 {
				self.t(",");
			}
			self.t(["p", "q", "r", "s"][i]);
			if self.rng.chance(1, 3) {
				self.t("=");
				self.expr(d - 1);
			}
		}
		if n > 0 && self.rng.chance(1, 5) {
			self.t(",");
		}
		self.t(")");
	}
	fn bind(&mut self, d: usize) {
		match self.rng.below(if self.rich { 6 } else { 4 }) {
			0 | 1 => {
				self.ident_plain();
				self.t("=");
				self.expr(d - 1);
			}
			2 => {
				self.ident_plain();
				self.params(d);
				self.t("=");
				self.expr(d - 1);
			}
			3 => {
				self.ident_plain();
				self.t("=");
				self.t("function");
				self.params(d);
				self.expr(d - 1);
			}
			4 => {
				self.t("[");
				self.t("a");
				self.t(",");
				self.t("...");
				self.t("]");
				self.t("=");
				self.expr(d - 1);
			}
			_ => {
				self.t("{");
				self.t("a");
				self.t(",");
				self.t("b");
				self.t("}");
				self.t("=");
				self.expr(d - 1);
			}
		}
	}
	fn ident_plain(&mut self) {
		let i = self.rng.below(5);
		self.t(["a", "b", "x", "y", "foo"][i]);
	}
	fn array(&mut self, d: usize) {
		self.t("[");
		if self.rng.chance(1, 5) {
			// comprehension
			self.expr(d - 1);
			if self.rng.chance(1, 4) {
				self.t(",");
			}
			self.compspecs(d);
		} else {
			let n = self.rng.below(5);
			for i in 0..n {
				if i > 0 {
					self.t(",");
				}
				self.expr(d - 1);
			}
			if n > 0 && self.rng.chance(1, 3) {
				self.t(",");
			}
		}
		self.t("]");
	}
	fn compspecs(&mut self, d: usize) {
		self.t("for");
		self.ident_plain();
		self.t("in");
		self.expr(d - 1);
		let n = self.rng.below(3);
		for _ in 0..n {
			if self.rng.chance(1, 2) {
				self.t("if");
				self.expr(d - 1);
			} else {
				self.t("for");
				self.ident_plain();
				self.t("in");
				self.expr(d - 1);
			}
		}
	}
	fn field_name(&mut self, d: usize) {
		match self.rng.below(6) {
			0 | 1 | 2 => self.ident_plain(),
			3 => self.tp(&["\"k\"", "'k 2'", "@\"v\""]),
			_ => {
				self.t("[");
				self.expr(d - 1);
				self.t("]");
			}
		}
	}
	fn object(&mut self, d: usize) {
		self.t("{");
		if self.rng.chance(1, 6) {
			// object comprehension
			if self.rng.chance(1, 3) {
				self.t("local");
				self.bind(d);
				self.t(",");
			}
			self.t("[");
			self.expr(d - 1);
			self.t("]");
			self.t(":");
			self.expr(d - 1);
			if self.rng.chance(1, 4) {
				self.t(",");
			}
			self.compspecs(d);
			self.t("}");
			return;
		}
		let n = self.rng.below(5);
		for i in 0..n {
			if i > 0 {
				self.t(",");
			}
			match self.rng.below(8) {
				0 => {
					self.t("local");
					self.bind(d);
				}
				1 => {
					self.t("assert");
					self.expr(d - 1);
					if self.rng.chance(1, 2) {
						self.t(":");
						self.expr(d - 1);
					}
				}
				2 => {
					self.field_name(d);
					self.params(d);
					self.tp(&[":", "::", ":::"]);
					self.expr(d - 1);
				}
				_ => {
					self.field_name(d);
					if self.rng.chance(1, 5) {
						self.t("+");
					}
					self.tp(&[":", ":", "::", ":::"]);
					self.expr(d - 1);
				}
			}
		}
		if n > 0 && self.rng.chance(1, 2) {
			self.t(",");
		}
		self.t("}");
	}
}

fn is_wordy(c: char) -> bool {
	c.is_alphanumeric() || c == '_' || c == '"' || c == '\'' || c == '@' || c == '$' || c == '|'
}
const TIGHT: [&str; 8] = ["(", ")", "[", "]", "{", "}", ",", ";"];
const COMMENTS: [&str; 12] = [
	" /* c */ ",
	" // line\n",
	" # hash\n",
	"\n// own line\n",
	"\n\n# para\n",
	"/* multi\n   line\n */",
	"\n/** doc\n * text\n */\n",
	"/**/",
	" //\n",
	"\n/*\n\tindented\n\t\tmore\n*/\n",
	"/* a\tb */",
	" // tab\there\n",
];

/// layout style: 0 = single spaces, 1 = mixed whitespace, 2 = whitespace + comments
fn layout(rng: &mut Rng, toks: &[String], style: usize) -> String {
	let mut s = String::new();
	if style == 2 && rng.chance(1, 6) {
		s.push_str(*rng.pick(&COMMENTS));
	}
	for (i, t) in toks.iter().enumerate() {
		if i > 0 {
			let prev = &toks[i - 1];
			let glue_ok = TIGHT.contains(&prev.as_str()) || TIGHT.contains(&t.as_str());
			let sep: &str = match style {
				0 => " ",
				_ => {
					let r = rng.below(100);
					if r < 45 {
						" "
					} else if r < 55 && glue_ok {
						""
					} else if r < 75 {
						"\n"
					} else if r < 80 {
						"\n\n"
					} else if r < 84 {
						"\n\n\n"
					} else if r < 88 {
						"\t"
					} else if r < 91 {
						"  \n  "
					} else if style == 2 {
						*rng.pick(&COMMENTS)
					} else {
						" "
					}
				}
			};
			// never glue two word-like tokens or build a different token by accident
			if sep.is_empty() {
				let a = prev.chars().last().unwrap_or(' ');
				let b = t.chars().next().unwrap_or(' ');
				if is_wordy(a) && is_wordy(b) {
					s.push(' ');
				}
			}
			s.push_str(sep);
		}
		s.push_str(t);
	}
	if style == 2 && rng.chance(1, 5) {
		s.push_str(*rng.pick(&COMMENTS));
	}
	if rng.chance(1, 2) {
		s.push('\n');
	}
	s
}

/// layout style "sparse": one line, except that line breaks (one or several) appear inside empty
/// bracket pairs, behind opening brackets, before closing ones and now and then elsewhere
fn layout_sparse(rng: &mut Rng, toks: &[String]) -> String {
	const OPEN: [&str; 3] = ["(", "[", "{"];
	const CLOSE: [&str; 3] = [")", "]", "}"];
	let mut s = String::new();
	for (i, t) in toks.iter().enumerate() {
		if i > 0 {
			let prev = toks[i - 1].as_str();
			let after_open = OPEN.contains(&prev);
			let before_close = CLOSE.contains(&t.as_str());
			let p = if after_open && before_close {
				50
			} else if after_open || before_close {
				12
			} else {
				2
			};
			if rng.below(100) < p {
				s.push_str(*rng.pick(&["\n", "\n", "\n\n", "\n\n\n", "  \n  "]));
			} else if after_open && before_close && rng.chance(1, 2) {
				// glued: `()`
			} else {
				s.push(' ');
			}
		}
		s.push_str(t);
	}
	s
}

/// layout style "commented": one line with a comment in every eighth gap (line comments end the line)
fn layout_commented(rng: &mut Rng, toks: &[String]) -> String {
	let mut s = String::new();
	for (i, t) in toks.iter().enumerate() {
		if i > 0 {
			if rng.chance(1, 8) {
				s.push_str(*rng.pick(&COMMENTS));
			} else {
				s.push(' ');
			}
		}
		s.push_str(t);
	}
	s
}

/// the program behind a prefix of `pad` columns: as a field value, an argument, an array element
fn wrap_program(kind: usize, pad: usize, src: &str) -> String {
	let name = "w".repeat(pad.max(1));
	match kind {
		0 => src.to_string(),
		1 => format!("{{ {name}: {src} }}"),
		2 => format!("{name}({src})"),
		_ => format!("[ \"{name}\", {src} ]"),
	}
}

fn width_bucket(text: &str) -> &'static str {
	let w = text.lines().map(|l| l.replace('\t', "   ").chars().count()).max().unwrap_or(0);
	match w {
		0..=79 => "0-79",
		80..=95 => "80-95",
		96..=100 => "96-100",
		_ => "101+",
	}
}

fn gen_program(rng: &mut Rng, depth: usize, rich: bool) -> Vec<String> {
	let mut g = Gen { rng, toks: Vec::new(), rich };
	g.expr(depth);
	g.toks
}

// ------------------------------------------------------------------------------------------
// tokens that span lines or contain tabs (also used by the C19 engine)
// ------------------------------------------------------------------------------------------
//
// Every printer hands token text to `PushText::push_text` (string literals, comment lines, text
// block lines, unterminated comments).  Text with a tab or a line break cannot travel as one dprint
// string; it is cut into string / Tab / NewLine signals, and a text that spans lines is bracketed
// by Start/FinishIgnoringIndent so that the continuation lines of the TOKEN are not indented like
// code.  The family below enumerates the shapes that decision depends on (where the first tab, the
// first line break, a CR, trailing blanks sit relative to each other) for every token kind that
// can carry them, and places each token at nesting depth 0..=3 so that there is an indentation to
// get wrong.

/// bodies of string literals: (label, text between the quotes)
pub const SPAN_BODIES: [(&str, &str); 34] = [
	("tab-only", "a\tb"),
	("tab-only-leading", "\ta"),
	("tab-only-trailing", "a\t"),
	("tab-only-two", "a\tb\tc"),
	("tab-alone", "\t"),
	("nl-only", "a\nb"),
	("nl-alone", "\n"),
	("nl-leading", "\na"),
	("nl-trailing", "a\n"),
	("nl-two", "a\nb\nc"),
	("nl-blank-line", "a\n\nb"),
	("tab-before-first-nl", "a\tb\nc"),
	("tab-before-first-nl-tsv", "name\tvalue\nfoo\t1\n"),
	("tab-before-first-nl-leading", "\ta\nb"),
	("tab-before-first-nl-adjacent", "a\t\nb"),
	("tab-nl-alone", "\t\n"),
	("tab-after-first-nl", "a\nb\tc"),
	("tab-after-first-nl-adjacent", "a\n\tb"),
	("nl-tab-alone", "\n\t"),
	("tab-after-second-nl", "a\nb\nc\td"),
	("tab-both-sides", "a\tb\nc\td"),
	("tab-both-sides-adjacent", "a\t\n\tb"),
	("trailing-spaces-before-nl", "a  \nb"),
	("trailing-space-and-tab-before-nl", "a \t \nb"),
	("leading-spaces-after-nl", "a\n    b"),
	("ws-only-line", "a\n   \nb"),
	("ws-only-line-tab", "a\n\t\nb"),
	("cr", "a\rb"),
	("crlf", "a\r\nb"),
	("tab-crlf", "a\tb\r\nc\td\r\n"),
	("cr-before-tab", "a\r\tb\nc"),
	("nl-then-closing-quote-indented", "a\n  "),
	("brackets-inside", "{\n\t[\n(\n"),
	("comment-like-inside", "a // b\t\n/* c\n# d"),
];

const SPAN_QUOTES: [(&str, &str, &str); 4] = [("dq", "\"", "\""), ("sq", "'", "'"), ("vdq", "@\"", "\""), ("vsq", "@'", "'")];

/// `/* … */` comments: line breaks, tabs, differing indentation, gutters, stars next to the
/// delimiters, comments without text, very long lines
pub const SPAN_COMMENTS: [(&str, &str); 69] = [
	("one-line-tab", "/* a\tb */"),
	("one-line-leading-tab", "/*\ta */"),
	("one-line-glued", "/*a*/"),
	("one-line-blanks", "/*   a   */"),
	("one-line-star-text", "/* * a */"),
	("two-lines", "/* a\n   b */"),
	("two-lines-tab-first", "/* a\tb\n   c */"),
	("two-lines-tab-second", "/* a\n\tb\tc */"),
	("own-lines-tab-indent", "/*\n\ta\n\tb\n*/"),
	("own-lines-tab-deeper", "/*\n\ta\n\t\tb\n\t\t\tc\n*/"),
	("own-lines-space-deeper", "/*\n  a\n    b\n   c\n*/"),
	("own-lines-mixed-indent", "/*\n \ta\n \t\tb\n*/"),
	("own-lines-tab-vs-space", "/*\n\ta\n  b\n*/"),
	("own-lines-inner-tab", "/*\n  a\tb\n  c\td\n*/"),
	("own-lines-blank", "/*\n  a\n\n  b\n*/"),
	("own-lines-ws-only", "/*\n  a\n   \t\n  b\n*/"),
	("own-lines-trailing-ws", "/*\n  a  \n  b\t\n*/"),
	("own-lines-one-text-line", "/*\n  a\n*/"),
	("own-lines-blank-first-and-last", "/*\n\n  a\n  b\n\n*/"),
	("closing-indented", "/*\n  a\n  */"),
	("closing-tab-indented", "/*\n\ta\n\t*/"),
	("closing-glued", "/*\n  a\n  b*/"),
	("gutter", "/*\n * a\n * b\n */"),
	("gutter-tab", "/*\n *\ta\n *\t\tb\n */"),
	("gutter-deeper", "/*\n * a\n *   b\n */"),
	("gutter-glued-text", "/*\n *a\n *b\n */"),
	("gutter-not-on-every-line", "/*\n * a\n   b\n */"),
	("gutter-twice", "/*\n * * a\n * * b\n */"),
	("gutter-bullets", "/*\n  * a\n  * b\n*/"),
	("gutter-first-line-text", "/* a\n * b\n */"),
	("gutter-first-line-star-text", "/* * a\n * b\n */"),
	("gutter-only-lines", "/*\n *\n *\n */"),
	("gutter-empty-first-and-last", "/*\n *\n * a\n *\n */"),
	("doc", "/** a\n * b\n */"),
	("doc-tab", "/**\n *\ta\n * b\tc\n */"),
	("doc-tab-lines", "/**\n\ta\n\t\tb\n*/"),
	("doc-tab-after-blank", "/**\n * \ta\n * b\n */"),
	("doc-one-line", "/** a */"),
	("doc-one-line-blanks", "/**   a\t*/"),
	("doc-one-line-star-text", "/** * a */"),
	("doc-one-text-line", "/**\n * a\n */"),
	("doc-no-gutter", "/**\n  a\n  b\n*/"),
	("doc-deeper", "/**\n * a\n *     b\n *\tc\n */"),
	("doc-closing-stars", "/**\n * a\n **/"),
	("crlf", "/* a\r\n   b\r\n */"),
	("crlf-gutter", "/**\r\n * a\r\n *\r\n * b\r\n */"),
	("cr-inside", "/* a\rb */"),
	// formerly excluded: the unchanged formatter did not settle on them / dropped them
	("doc-empty-gutter-line", "/**\n * a\n *\n * b\n */"),
	("gutter-empty-gutter-line", "/*\n * a\n *\n * b\n */"),
	("immediate-then-blank-line", "/*  a\n\n  b*/"),
	("no-text", "/*\n\t\n*/"),
	("no-text-glued", "/**/"),
	("no-text-blank", "/* */"),
	("no-text-blanks-tab", "/*  \t */"),
	("no-text-lines", "/*\n\n\n*/"),
	("no-text-crlf", "/*\r\n*/"),
	("no-text-doc", "/**  \t\r\n */"),
	("no-text-doc-glued", "/***/"),
	("no-text-doc-stars", "/** **/"),
	("no-text-doc-many-stars", "/*****/"),
	// nested-looking text, stars next to the delimiters, lines of stars
	("nested-looking", "/* a /* b */"),
	("nested-looking-lines", "/*\n  /* a\n  // b\n  # c\n*/"),
	("stars-closing", "/* a **/"),
	("stars-both", "/*** a ***/"),
	("stars-banner", "/*****\n * a *\n *****/"),
	("stars-only-lines", "/*\n  ****\n  a\n  ****\n*/"),
	("star-only-line", "/*\n  a\n  *\n  b\n*/"),
	// wider than the line width of the formatter (100 columns)
	("long-one-line", "/* lorem ipsum dolor sit amet consectetur adipiscing elit sed do eiusmod tempor incididunt ut labore et dolore magna */"),
	("long-lines", "/*\n * lorem ipsum dolor sit amet consectetur adipiscing elit sed do eiusmod tempor incididunt ut labore et dolore magna\n *\n * aliqua_ut_enim_ad_minim_veniam_quis_nostrud_exercitation_ullamco_laboris_nisi_ut_aliquip_ex_ea_commodo_consequat_duis\n */"),
];

/// `//` and `#` comments (without the line end): trailing blanks and tabs, no text, markers in the text
pub const SPAN_LINE_COMMENTS: [(&str, &str); 26] = [
	("slash", "// a"),
	("slash-glued", "//a"),
	("slash-trailing-blanks", "// a   "),
	("slash-trailing-tab", "// a\t"),
	("slash-trailing-mixed", "// a \t \t"),
	("slash-leading-tab", "//\ta"),
	("slash-leading-blanks", "//     a"),
	("slash-inner-tab", "// a\tb\t\tc"),
	("slash-no-text", "//"),
	("slash-blank-only", "//   "),
	("slash-tab-only", "//\t"),
	("slash-many", "//// a"),
	("slash-markers-inside", "// a /* b */ # c // d"),
	("slash-cr", "// a\r"),
	("slash-long", "// lorem ipsum dolor sit amet consectetur adipiscing elit sed do eiusmod tempor incididunt ut labore et dolore magna"),
	("hash", "# a"),
	("hash-glued", "#a"),
	("hash-trailing-blanks", "# a   "),
	("hash-trailing-tab", "# a\t"),
	("hash-leading-tab", "#\ta"),
	("hash-inner-tab", "# a\tb"),
	("hash-no-text", "#"),
	("hash-blank-only", "# \t "),
	("hash-many", "### a"),
	("hash-bang", "#!/usr/bin/env jsonnet"),
	("hash-long", "# lorem_ipsum_dolor_sit_amet_consectetur_adipiscing_elit_sed_do_eiusmod_tempor_incididunt_ut_labore_et_dolore_magna"),
];

/// text blocks: tabs, blank and whitespace-only lines, chomping, terminator indentation
pub const SPAN_BLOCKS: [(&str, &str); 22] = [
	("plain", "|||\n  a\n  b\n|||"),
	("chomp", "|||-\n  a\n  b\n|||"),
	("tab-indent", "|||\n\ta\n\tb\n|||"),
	("tab-indent-chomp", "|||-\n\ta\n|||"),
	("two-tab-indent", "|||\n\t\ta\n\t\t\tb\n|||"),
	("mixed-indent", "|||\n \ta\n \t b\n|||"),
	("inner-tab", "|||\n  a\tb\n  c\td\n|||"),
	("inner-leading-tab", "|||\n  a\n  \tb\n|||"),
	("tab-indent-inner-tab", "|||\n\ta\tb\n\t\tc\n|||"),
	("blank-line", "|||\n  a\n\n  b\n|||"),
	("blank-lines-end", "|||\n  a\n\n\n|||"),
	("blank-line-chomp", "|||-\n  a\n\n|||"),
	("ws-only-spaces", "|||\n  a\n     \n  b\n|||"),
	("ws-only-tab", "|||\n  a\n  \t\n  b\n|||"),
	("ws-only-mixed", "|||\n\ta\n\t \t \n\tb\n|||"),
	("indent-only-line", "|||\n  a\n  \n  b\n|||"),
	("trailing-ws", "|||\n  a  \n  b\t\n  c \t \n|||"),
	("deeper", "|||\n  a\n      b\n   c\n|||"),
	("terminator-indented", "|||\n    a\n  |||"),
	("terminator-tab-indented", "|||\n  a\n\t|||"),
	("first-line-blank", "|||\n\n  a\n|||"),
	("crlf", "|||\r\n  a\r\n  b\r\n|||"),
];

/// one generated program around one (or two) tokens that span lines / contain tabs
pub struct Spanning {
	/// `<token kind>.<shape>` — histogram key
	pub label: String,
	pub depth: usize,
	pub src: String,
}

/// kinds of positions a token can be put into
#[derive(Clone, Copy, PartialEq)]
enum Hole {
	/// any expression
	Value,
	/// a string literal (not a text block) is required: field names, import paths
	Str,
}

/// wrappers: tokens before / after the hole, and whether the hole is a string-literal-only place.
/// All of them evaluate without error when the hole is a string (C19 evaluates them).
const SPAN_WRAPS: [(&str, &[&str], &[&str]); 20] = [
	("field", &["{", "k", ":"], &["}"]),
	("field-mid", &["{", "a", ":", "1", ",", "k", "::"], &[",", "b", ":", "2", ",", "}"]),
	("field-plus", &["{", "k", ":", "'p'", "}", "+", "{", "k", "+:"], &["}"]),
	("array", &["["], &["]"]),
	("array-mid", &["[", "0", ","], &[",", "1", ",", "]"]),
	("call", &["std", ".", "length", "("], &[")"]),
	("call-named", &["(", "function", "(", "s", ",", "t", "=", "1", ")", "s", ")", "(", "t", "=", "2", ",", "s", "="], &[")"]),
	("call-second", &["std", ".", "startsWith", "(", "'a'", ","], &[")"]),
	("param-default", &["(", "function", "(", "p", "="], &[")", "p", ")", "(", ")"]),
	("local", &["local", "v", "="], &[";", "v"]),
	("local-second", &["local", "u", "=", "1", ",", "v", "="], &[";", "[", "u", ",", "v", "]"]),
	("paren", &["("], &[")"]),
	("concat-left", &[], &["+", "'t'"]),
	("concat-right", &["'t'", "+"], &[]),
	("if-then", &["if", "true", "then"], &["else", "null"]),
	("if-else", &["if", "false", "then", "null", "else"], &[]),
	("array-comp", &["["], &["for", "i", "in", "[", "1", ",", "2", "]", "]"]),
	("obj-comp", &["{", "[", "'k'", "+", "i", "]", ":"], &["for", "i", "in", "[", "'a'", "]", "}"]),
	("assert-msg", &["assert", "true", ":"], &[";", "1"]),
	("index", &["{", "k", ":", "1", "}", "["], &["]"]),
];
/// wrappers whose hole takes a string literal only (innermost position)
const SPAN_STR_WRAPS: [(&str, &[&str], &[&str]); 4] = [
	("field-name", &["{"], &[":", "1", "}"]),
	("field-name-mid", &["{", "a", ":", "1", ","], &["::", "2", ",", "}"]),
	("in-object", &[], &["in", "{", "k", ":", "1", "}"]),
	("dyn-field-name", &["{", "["], &["]", ":", "1", "}"]),
];

/// token list of a program with the hole at nesting depth `depth`: (tokens before, tokens after, names)
fn span_context(rng: &mut Rng, depth: usize, hole: Hole) -> (Vec<String>, Vec<String>, Vec<&'static str>) {
	let mut pre: Vec<String> = Vec::new();
	let mut post: Vec<Vec<String>> = Vec::new();
	let mut names = Vec::new();
	for level in 0..depth {
		let innermost = level + 1 == depth;
		let (name, a, b) = if innermost && hole == Hole::Str && rng.chance(1, 2) {
			*rng.pick(&SPAN_STR_WRAPS)
		} else {
			*rng.pick(&SPAN_WRAPS)
		};
		names.push(name);
		pre.extend(a.iter().map(|s| (*s).to_string()));
		post.push(b.iter().map(|s| (*s).to_string()).collect());
	}
	let mut after = Vec::new();
	while let Some(p) = post.pop() {
		after.extend(p);
	}
	(pre, after, names)
}

/// joins wrapper tokens: on one line, or with source line breaks behind brackets / commas
fn span_join(rng: &mut Rng, toks: &[String], broken: bool, s: &mut String) {
	for t in toks {
		if !s.is_empty() {
			let last = s.chars().last().unwrap_or(' ');
			if broken && matches!(last, '{' | '[' | '(' | ',' | ';') && rng.chance(2, 3) {
				s.push('\n');
			} else if !last.is_whitespace() {
				s.push(' ');
			}
		}
		s.push_str(t);
	}
}

fn span_program(rng: &mut Rng, depth: usize, hole: Hole, token: &str, broken: bool) -> (String, Vec<&'static str>) {
	let (pre, post, names) = span_context(rng, depth, hole);
	let mut s = String::new();
	span_join(rng, &pre, broken, &mut s);
	if !s.is_empty() {
		s.push(if broken && rng.chance(1, 3) { '\n' } else { ' ' });
	}
	s.push_str(token);
	let mut tail = String::new();
	span_join(rng, &post, broken, &mut tail);
	if !tail.is_empty() {
		// a closing bracket on a line of its own now and then (`,` stays on the token's line)
		s.push(if broken && !tail.starts_with(',') && rng.chance(1, 3) { '\n' } else { ' ' });
		s.push_str(&tail);
	}
	(s, names)
}

/// a program whose spanning token is a COMMENT: a small valid program with the comment at one of
/// its token boundaries (before/behind values, commas, brackets; on its own line or inline; glued
/// to its neighbours; last thing in the file with and without a final line end).  A `//` / `#`
/// comment is always followed by a line end unless it ends the file.
fn span_comment_program(rng: &mut Rng, depth: usize, comment: &str) -> String {
	let line_comment = !comment.starts_with("/*");
	let value = *rng.pick(&["1", "'s'", "null", "[ ]", "{ }"]);
	let (mut toks, post, _) = span_context(rng, depth, Hole::Value);
	let lo = toks.len();
	toks.push(value.to_string());
	toks.extend(post);
	// boundary: mostly next to the value, otherwise anywhere (0 = start of file, len = end of file)
	let at = if rng.chance(2, 3) { lo + rng.below(2) } else { rng.below(toks.len() + 1) };
	let mut s = String::new();
	for (i, t) in toks.iter().enumerate() {
		if i == at {
			s.push_str(*rng.pick(&["", " ", "\n", "\n\n", "\n  ", "\n\t"]));
			s.push_str(comment);
			if line_comment {
				s.push_str(*rng.pick(&["\n", "\n", "\n\n", "\r\n", "\n  ", "\n\t"]));
			} else {
				s.push_str(*rng.pick(&["", " ", "\n", "\n\n", " \n"]));
			}
		} else if i > 0 {
			s.push(' ');
		}
		s.push_str(t);
	}
	if at == toks.len() {
		s.push_str(*rng.pick(&["", " ", "\n", "\n\n"]));
		s.push_str(comment);
		s.push_str(*rng.pick(&["", "", "\n", "\r\n"]));
	}
	s
}

/// Hosts of the `glued` comment programs: between them every bracket kind and every separator
/// (`( ) [ ] { } , ; : :: ::: = . for in if`), each a complete program that evaluates without error
const GLUE_HOSTS: [&str; 9] = [
	"{ a : 1 , b :: [ 1 , 2 ] , c ::: ( 3 ) }",
	"local f ( x , y = 2 ) = x + y ; f ( 1 , y = 3 )",
	"local a = 1 , b = [ a ] ; b",
	"[ x for x in [ 1 , 2 ] if x > 1 ]",
	"{ [ k ] : 1 for k in [ 'a' ] }",
	"{ a : { b : [ 1 ] } } . a [ 'b' ] [ : 1 ]",
	"{ local v = 1 , assert v == 1 : 'm' , a +: v }",
	"( function ( a , b = [ ] ) a ) ( 1 )",
	"if true then [ ] else { }",
];
/// the comments of the `glued` programs
const GLUE_COMMENTS: [(&str, &str); 7] = [
	("block", "/*c*/"),
	("block-lines", "/* c\n   d */"),
	("block-gutter", "/*\n * c\n *\n * d\n */"),
	("block-no-text", "/**/"),
	("doc-one-line", "/** c */"),
	("slash", "//c"),
	("hash", "#c \t"),
];
const GLUE_TOKENS: [&str; 17] = ["(", ")", "[", "]", "{", "}", ",", ";", ":", "::", ":::", "+:", "=", ".", "for", "in", "if"];

/// `glued`: a comment directly behind and directly before every bracket and separator of the hosts,
/// without any blank in between (a line comment is followed by its line end)
pub fn glued_comment_programs() -> Vec<Spanning> {
	let mut out = Vec::new();
	for host in GLUE_HOSTS {
		let toks: Vec<&str> = host.split(' ').collect();
		for at in 0..=toks.len() {
			let prev = if at > 0 { toks[at - 1] } else { "" };
			let next = if at < toks.len() { toks[at] } else { "" };
			let (near, side) = if GLUE_TOKENS.contains(&prev) {
				(prev, "behind")
			} else if GLUE_TOKENS.contains(&next) {
				(next, "before")
			} else if at == 0 {
				("file-start", "at")
			} else if at == toks.len() {
				("file-end", "at")
			} else {
				continue;
			};
			for (shape, comment) in GLUE_COMMENTS {
				let mut src = String::new();
				for (i, t) in toks.iter().enumerate() {
					if i == at {
						src.push_str(comment);
						if !comment.starts_with("/*") {
							src.push('\n');
						}
					} else if i > 0 {
						src.push(' ');
					}
					src.push_str(t);
				}
				if at == toks.len() {
					src.push_str(comment);
				}
				out.push(Spanning { label: format!("glued-{shape}.{side}-{near}"), depth: 0, src });
			}
		}
	}
	out
}

/// random string body out of the pieces the enumerated shapes are made of
fn span_random_body(rng: &mut Rng) -> String {
	let n = 1 + rng.below(7);
	let mut s = String::new();
	for _ in 0..n {
		s.push_str(*rng.pick(&[
			"a", "bc", "name", "é", "1", " ", "  ", "\t", "\t", "\t\t", "\n", "\n", "\n\n", "\r", "\r\n", " \n", "\t\n", "\n\t", "\n  ", ",", ":", "{", "]",
			"%", "#", "//", "|||",
		]));
	}
	s
}
fn span_random_comment(rng: &mut Rng) -> String {
	let doc = rng.chance(1, 4);
	let mut s = String::from(if doc { "/**" } else { "/*" });
	let n = rng.below(6);
	// never text glued to the `**` of a doc comment (`/**- h`): the formatter prints it as ` * - h`,
	// which is the same comment, but C19's comment projection compares white-space separated words
	// and would see `*-` become `-`
	s.push_str(*rng.pick(if doc {
		&[" ", " ", "\n", "\t", " a\tb\n", "  a", " * x", "\r\n", "\n\n", " \n", "* a"]
	} else {
		&["", " ", "\n", "\t", " a\tb\n", "  a", " * x", "\r\n", "\n\n", " \n", "a"]
	}));
	for _ in 0..n {
		s.push_str(*rng.pick(&[
			"", " ", "  ", "\t", "\t\t", " \t", "    ", " * ", " *\t", "\t * ", " *", " **", " * * ", "*", " *  ", "   * ", " * \t",
		]));
		s.push_str(*rng.pick(&["a", "b c", "d\te", "", "", "f  ", "g\t", "- h", "*", "***", "* x", "x*", "/* y", "// z", "é"]));
		s.push_str(*rng.pick(&["\n", "\n", "\n", "\n\n", "\r\n", " \n"]));
	}
	s.push_str(*rng.pick(&["", " ", "  ", "\t", "   ", " *", "\n *", "**"]));
	s.push_str("*/");
	// the pieces must not close the comment early (`*` + `/* y`), nor leave `/*/`
	let mut body = s[2..s.len() - 2].replace("*/", "* /");
	if body == "/" {
		return "/* / */".into();
	}
	// nor glue text to the stars behind `/*` (see above)
	let stars = body.len() - body.trim_start_matches('*').len();
	if stars > 0 && body[stars..].starts_with(|c: char| !c.is_whitespace()) {
		body.insert(stars, ' ');
	}
	format!("/*{body}*/")
}
fn span_random_line_comment(rng: &mut Rng) -> String {
	let mut s = String::from(*rng.pick(&["//", "//", "#", "#", "///", "##"]));
	for _ in 0..rng.below(5) {
		s.push_str(*rng.pick(&["", " ", "  ", "\t", " \t", "a", "b c", "d\te", "é", "//", "#", "/*", "*/", "'", "\"", "|||", "{"]));
	}
	s
}
fn span_random_block(rng: &mut Rng) -> String {
	let indent = *rng.pick(&["  ", "\t", " ", "    ", "\t\t", " \t", "\t "]);
	let mut s = String::from(if rng.chance(1, 3) { "|||-\n" } else { "|||\n" });
	let n = 1 + rng.below(5);
	for i in 0..n {
		let k = if i == 0 { 6 + rng.below(4) } else { rng.below(10) };
		match k {
			0 => s.push('\n'),
			1 => {
				s.push_str(indent);
				s.push_str(*rng.pick(&[" ", "   ", "\t", " \t", "\t "]));
				s.push('\n');
			}
			2 => {
				s.push_str(indent);
				s.push('\n');
			}
			3 => {
				s.push_str(indent);
				s.push_str(*rng.pick(&["x  \n", "x\t\n", "x \t \n"]));
			}
			4 => {
				s.push_str(indent);
				s.push_str(*rng.pick(&["  deeper\n", "\tdeeper\n", "\t\tdeeper\ttab\n"]));
			}
			5 | 6 => {
				s.push_str(indent);
				s.push_str("col\tumn\tx\n");
			}
			_ => {
				s.push_str(indent);
				s.push_str(*rng.pick(&["line", "k: v", "||| no end", "# c", "/* c"]));
				s.push('\n');
			}
		}
	}
	let closers: Vec<&str> = ["", "  ", "\t", "      ", " "].into_iter().filter(|c| !c.starts_with(indent)).collect();
	s.push_str(*rng.pick(&closers));
	s.push_str("|||");
	s
}

fn quote_body(q: usize, body: &str) -> String {
	let (_, open, close) = SPAN_QUOTES[q];
	format!("{open}{body}{close}")
}

/// Bounded-exhaustive: EVERY block comment text over the alphabet blank, tab, line break, `*`, `a` up
/// to `max_len` characters (gutters, gutter-only lines, doc comments, empty comments, text directly
/// behind `/*`, differing indentation all occur), in one of three places by turns: before the program,
/// on lines of its own inside an object, behind an array element.  Text glued to the stars behind
/// `/*` (`/**a`) is left out: printed as ` * a` it is the same comment, but not the same words for
/// C19's projection.
pub fn exhaustive_comment_programs(max_len: usize) -> Vec<Spanning> {
	const ALPHABET: [char; 5] = [' ', '\t', '\n', '*', 'a'];
	let mut out = Vec::new();
	let mut bodies: Vec<String> = vec![String::new()];
	let mut k = 0usize;
	for len in 0..=max_len {
		for body in &bodies {
			if body.trim_start_matches('*').starts_with('a') && body.starts_with('*') {
				continue;
			}
			k += 1;
			let src = match k % 3 {
				0 => format!("/*{body}*/ 1"),
				1 => format!("{{ a : 1 ,\n  /*{body}*/\n  b : 2 }}"),
				_ => format!("[ 1 , /*{body}*/ 2 ]"),
			};
			out.push(Spanning { label: format!("comment-exhaustive.len{len}"), depth: k % 3, src });
		}
		if len < max_len {
			bodies = bodies.iter().flat_map(|b| ALPHABET.iter().map(move |c| format!("{b}{c}"))).collect();
		}
	}
	out
}

/// The family: every enumerated token shape at every depth 0..=3 (random wrapper chain, once on one
/// line and once with source line breaks), plus `n_random` programs around random tokens.
pub fn spanning_programs(rng: &mut Rng, n_random: usize) -> Vec<Spanning> {
	let mut out = Vec::new();
	let mut k = 0usize;
	for (shape, body) in SPAN_BODIES {
		for q in 0..SPAN_QUOTES.len() {
			let token = quote_body(q, body);
			for depth in 0..=3usize {
				k += 1;
				let (src, _) = span_program(rng, depth, Hole::Str, &token, k % 2 == 0);
				out.push(Spanning { label: format!("str-{}.{shape}", SPAN_QUOTES[q].0), depth, src });
			}
		}
	}
	for (shape, block) in SPAN_BLOCKS {
		for depth in 0..=3usize {
			k += 1;
			let (src, _) = span_program(rng, depth, Hole::Value, block, k % 2 == 0);
			out.push(Spanning { label: format!("block.{shape}"), depth, src });
		}
	}
	for (shape, comment) in SPAN_COMMENTS {
		for depth in 0..=3usize {
			for _ in 0..2 {
				let src = span_comment_program(rng, depth, comment);
				out.push(Spanning { label: format!("comment.{shape}"), depth, src });
			}
		}
	}
	for (shape, comment) in SPAN_LINE_COMMENTS {
		for depth in 0..=3usize {
			for _ in 0..2 {
				let src = span_comment_program(rng, depth, comment);
				out.push(Spanning { label: format!("linecomment.{shape}"), depth, src });
			}
		}
	}
	out.extend(glued_comment_programs());
	for i in 0..n_random {
		let depth = rng.below(4);
		let broken = rng.chance(1, 2);
		match i % 5 {
			0 | 1 => {
				let q = rng.below(SPAN_QUOTES.len());
				let mut token = quote_body(q, &span_random_body(rng));
				if rng.chance(1, 4) {
					token = format!("{token} + {}", quote_body(rng.below(4), &span_random_body(rng)));
				}
				let (src, _) = span_program(rng, depth, if token.contains(" + ") { Hole::Value } else { Hole::Str }, &token, broken);
				out.push(Spanning { label: format!("str-{}.random", SPAN_QUOTES[q].0), depth, src });
			}
			2 => {
				let token = span_random_block(rng);
				let (src, _) = span_program(rng, depth, Hole::Value, &token, broken);
				out.push(Spanning { label: "block.random".into(), depth, src });
			}
			3 => {
				let c = span_random_comment(rng);
				let src = span_comment_program(rng, depth, &c);
				out.push(Spanning { label: "comment.random".into(), depth, src });
			}
			_ => {
				let c = if rng.chance(1, 2) { span_random_line_comment(rng) } else { span_random_comment(rng) };
				let src = span_comment_program(rng, depth, &c);
				out.push(Spanning { label: format!("{}.random", if c.starts_with("/*") { "comment" } else { "linecomment" }), depth, src });
			}
		}
	}
	out
}

const VOCAB: [&str; 70] = [
	"x", "y", "1", "2.5", "\"s\"", "'t'", "@\"v\"", "|||\n a\n|||", "|||", "(", ")", "[", "]", "{", "}", ":",
	"::", ":::", ",", ".", ";", "=", "+", "-", "*", "/", "%", "!", "~", "==", "!=", "<", "<=", ">", ">=",
	"&&", "||", "&", "|", "^", "<<", ">>", "in", "if", "then", "else", "local", "for", "function",
	"import", "importstr", "importbin", "error", "assert", "self", "super", "$", "null", "true", "false",
	"tailstrict", "?", "...", "//c\n", "/*c*/", "#h\n", "/*", "\"", "\n", "\t",
];

const BOUNDARY: [&str; 64] = [
	"", " ", "\n", "\t", "+1", "+", "function", "function 1", "function(", "function(a", "import", "import a",
	"importstr", "importbin 1", "{", "{ a", "{ a:", "{ a: 1", "{ a: 1,", "{  )  \r", "{ a b c }", "{ a = 1 }",
	"{ local", "{ assert", "{ [", "{ a(", "{ a: function", "{a: function 1}", "local a = function 1; a",
	"local", "local a", "local a =", "local a = 1", "local a = 1;", "local a(", "[", "[1", "[1,", "[1 for",
	"[1 for x", "[1 for x in", "(", "()", "if", "if 1", "if 1 then", "if 1 then 2 else", "error", "-", "!",
	"a.", "a?", "a?.", "a[", "a[:", "a[1:2:", "a(", "a(b=", "/*", "/*/", "\"", "'", "|||", "|||\n",
];

// ------------------------------------------------------------------------------------------
// jrsonnet-fmt binary
// ------------------------------------------------------------------------------------------
pub struct BinOut {
	pub code: Option<i32>,
	pub stdout: String,
	pub panicked: bool,
	pub stderr_tail: String,
}
fn fmt_bin() -> Option<std::path::PathBuf> {
	let dir = std::env::var_os("VERIF_BIN_DIR")?;
	let p = std::path::PathBuf::from(dir).join("jrsonnet-fmt");
	p.exists().then_some(p)
}
fn run_bin(bin: &std::path::Path, src: &str, flags: &[String], dir: &std::path::Path) -> BinOut {
	// through a file: `-e` cannot carry texts starting with `-`
	let path = dir.join("c20_input.jsonnet");
	std::fs::File::create(&path).and_then(|mut f| f.write_all(src.as_bytes())).expect("write input");
	let out = Command::new(bin)
		.args(flags)
		.arg("--")
		.arg(&path)
		.env("RUST_BACKTRACE", "0")
		.stdin(Stdio::null())
		.output()
		.expect("spawn jrsonnet-fmt");
	let stderr = String::from_utf8_lossy(&out.stderr).to_string();
	let tail: String = stderr
		.lines()
		.filter(|l| !l.contains("is a prototype") && !l.contains("It is not expected"))
		.collect::<Vec<_>>()
		.join("\n");
	BinOut {
		code: out.status.code(),
		stdout: String::from_utf8_lossy(&out.stdout).to_string(),
		panicked: stderr.contains("panicked at") || out.status.code().is_none() || out.status.code() == Some(101),
		stderr_tail: tail.chars().take(300).collect(),
	}
}

// ------------------------------------------------------------------------------------------
// case emission
// ------------------------------------------------------------------------------------------
struct Ctx {
	w: CaseWriter,
	hist: BTreeMap<String, u64>,
	seen: std::collections::HashSet<String>,
}
impl Ctx {
	fn bump(&mut self, k: &str) {
		*self.hist.entry(k.to_string()).or_insert(0) += 1;
	}

	/// crash-freedom + diagnostic branch model.  Returns the outcome for indent 2.
	fn diag(&mut self, gen: &str, src: &str) -> Out {
		let out = run_format(src, 2);
		self.bump(&format!("gen.{gen}"));
		if !self.seen.insert(src.to_string()) {
			return out;
		}
		let parsed = run_parse(src);
		let (res, msg) = match &out {
			Out::Ok(_) => ("ok", String::new()),
			Out::Diag => ("diag", String::new()),
			Out::Panic(m) => ("panic", m.clone()),
		};
		self.bump(&format!("diag.{res}"));
		if let Out::Panic(m) = &out {
			self.bump(&format!("panic.{}", panic_class(m)));
		}
		let mut op = json!({"op":"fmt.diag","gen":gen,"t":src,"len":src.len(),"size":src.len()});
		match &parsed {
			Ok(p) => {
				op["errs"] = json!(p.errs.iter().map(|(s, e)| json!([s, e])).collect::<Vec<_>>());
			}
			Err(m) => {
				op["parse_panic"] = json!(panic_class(m));
			}
		}
		if matches!(parsed, Ok(ref p) if p.errs.is_empty()) && res == "ok" {
			// valid text, formatted: nothing for the diagnostic model to decide
			op["trivial"] = json!(true);
		}
		self.w.case(op, json!({"res": res, "_class": if msg.is_empty() { String::new() } else { panic_class(&msg) }, "_msg": msg.chars().take(200).collect::<String>()}));
		self.sink(gen, src, &parsed);
		out
	}

	/// event protocol + tree builder: the REAL event list and lexemes of this parse (hook) go to the
	/// Lean model of `Sink::finish`; its builder calls, error ranges and the yield of the tree are
	/// compared with the real tree.  `wf`: the model's well-formedness predicate must hold of every
	/// event list the real parser produces (the implementation side cannot compute it: constant).
	fn sink(&mut self, gen: &str, src: &str, parsed: &Result<Parsed, String>) {
		if src.len() > SINK_MAX_LEN {
			self.bump("sink.skipped-long");
			return;
		}
		let mut op = json!({"op":"fmt.sink","gen":gen,"t":src,"size":src.len()});
		match parsed {
			Ok(p) => {
				let Some(rec) = &p.record else {
					self.bump("sink.no-record");
					return;
				};
				use jrsonnet_rowan_parser::verif::VerifEvent as E;
				let ev: Vec<serde_json::Value> = rec
					.events
					.iter()
					.map(|e| match e {
						E::Pending => json!([0]),
						E::Start { kind, forward_parent } => json!([1, kind.into_raw(), forward_parent]),
						E::Token { kind } => json!([2, kind.into_raw()]),
						E::Finish { wrapper, error } => json!([3, wrapper, u8::from(*error)]),
						E::Noop => json!([4]),
					})
					.collect();
				let chain = rec.events.iter().filter(|e| matches!(e, E::Start { forward_parent, .. } if *forward_parent != 0)).count();
				let wrap = rec.events.iter().filter(|e| matches!(e, E::Finish { wrapper, .. } if *wrapper != 0)).count();
				self.bump(&format!("sink.events.{}", bucket(rec.events.len())));
				self.bump(&format!("sink.forward-parents.{}", bucket(chain)));
				self.bump(&format!("sink.wrappers.{}", bucket(wrap)));
				self.bump(if p.errs.is_empty() { "sink.errors.none" } else { "sink.errors.some" });
				op["ev"] = json!(ev);
				op["lx"] = json!(rec.lexemes.iter().map(|(k, lo, hi)| json!([k.into_raw(), lo, hi])).collect::<Vec<_>>());
				self.w.case(
					op,
					json!({"res":"ok","wf":true,"yield":p.yields,"ops":p.ops,
						"errs":p.sink_errs.iter().map(|(s, e)| json!([s, e])).collect::<Vec<_>>()}),
				);
			}
			Err(m) => {
				// parser or tree builder panicked: no event list; the reference meaning still applies
				self.bump("sink.panic");
				self.w.case(op, json!({"res":"panic","_class":panic_class(m)}));
			}
		}
	}

	/// one run of the real binary against the Lean model of `main_result`, fed with the table of
	/// in-process format results.  Returns stdout if the exit code was 0.
	#[allow(clippy::too_many_arguments)]
	fn main_case(&mut self, bin: &std::path::Path, dir: &std::path::Path, gen: &str, src: &str, indent: u8, hard: bool,
		limit: usize, test: bool, expect_accept: Option<&str>) -> Option<String> {
		let mut flags: Vec<String> = vec!["--indent".into(), indent.to_string(), "--conv-limit".into(), limit.to_string()];
		if hard {
			flags.push("--hard-tabs".into());
		}
		if test {
			flags.push("--test".into());
		}
		let r = run_bin(bin, src, &flags, dir);
		// tables for the effective indents the flags could mean (the model picks one)
		let mut tables = serde_json::Map::new();
		for eff in [0u8, indent] {
			let mut rows = Vec::new();
			let mut cur = src.to_string();
			for _ in 0..limit + 2 {
				match run_format(&cur, eff) {
					Out::Ok(f) => {
						let t = f.trim().to_owned();
						rows.push(json!([cur, t]));
						if t == cur {
							break;
						}
						cur = t;
					}
					Out::Diag => {
						rows.push(json!([cur, null]));
						break;
					}
					Out::Panic(_) => break,
				}
			}
			tables.insert(eff.to_string(), json!(rows));
		}
		self.bump(&format!("main.{gen}.code{}", r.code.map_or("-signal".to_string(), |c| c.to_string())));
		let mut op = json!({"op":"fmt.main","gen":gen,"input":src,"indent":indent,"hard_tabs":hard,"limit":limit,"test":test,
			"tables":tables,"size":src.len()});
		if let Some(y) = expect_accept {
			op["expect"] = json!({"code":0,"stdout":y});
		}
		self.w.case(op, json!({"code": r.code.unwrap_or(255), "stdout": r.stdout, "_stderr": r.stderr_tail}));
		(r.code == Some(0)).then_some(r.stdout)
	}

	/// fixed point for one valid program and one indent setting
	fn idem(&mut self, gen: &str, src: &str, indent: u8) -> Option<String> {
		let f1 = match run_format(src, indent) {
			Out::Ok(f1) => f1,
			Out::Diag => return None,
			Out::Panic(m) => {
				// a panic of the first pass under THIS indent setting (`diag` only runs indent 2)
				self.bump(&format!("idem.indent{indent}.first-pass-panic"));
				self.w.case(
					json!({"op":"fmt.idem","gen":gen,"t":src,"indent":indent,"once":"","size":src.len()}),
					json!({"res":"panic","twice":"","_pass":1,"_msg":m.chars().take(200).collect::<String>(),"_class":panic_class(&m)}),
				);
				return None;
			}
		};
		let twice = run_format(&f1, indent);
		let (res, f2, msg) = match twice {
			Out::Ok(s) => ("ok", s, String::new()),
			Out::Diag => ("diag", String::new(), String::new()),
			Out::Panic(m) => ("panic", String::new(), m),
		};
		self.bump(&format!("idem.indent{indent}.{}", if res == "ok" && f2 == f1 { "fixpoint" } else if res == "ok" { "changed" } else { res }));
		// passes until the text stops changing (1 = `once` already is a fixed point; 99 = not within 4)
		let mut conv = 99;
		if res == "ok" {
			let (mut prev, mut cur) = (f1.clone(), f2.clone());
			for k in 1..=4 {
				if prev == cur {
					conv = k;
					break;
				}
				match run_format(&cur, indent) {
					Out::Ok(next) => {
						prev = cur;
						cur = next;
					}
					_ => break,
				}
			}
		}
		self.bump(&format!("idem.passes-to-settle.{conv}"));
		let mut op = json!({"op":"fmt.idem","gen":gen,"t":src,"indent":indent,"once":f1,"size":src.len()});
		if res == "ok" && f2 != f1 {
			// the real lexer's lexemes (kind, text) of both passes: Lean decides "same code tokens"
			op["once_lx"] = lexemes_json(&f1);
			op["twice_lx"] = lexemes_json(&f2);
		}
		self.w.case(
			op,
			json!({"res":res,"twice":f2,"_conv":conv,"_msg":msg.chars().take(200).collect::<String>(),
				"_class": if msg.is_empty() { String::new() } else { panic_class(&msg) }}),
		);
		Some(f1)
	}
}

const SINK_MAX_LEN: usize = 700;

fn lexemes_json(src: &str) -> serde_json::Value {
	json!(jrsonnet_lexer::Lexer::new(src).map(|l| json!([l.kind.into_raw(), l.text])).collect::<Vec<_>>())
}

/// Regression corpus: one minimal witness per layout defect repaired so far (the round-4 `fix:`
/// commits of the formatter; found by delta-debugging generated programs against the formatter as
/// it was).  They run first on every check, under every indent setting, and must be fixed points.
const REPAIRED_WITNESSES: [(&str, &str); 21] = [
	("stale-extent.inline-group-around-forced-break", "{'':1,[{}]:r,[[]]:x[:]|[assert\"\";1]}"),
	("stale-extent.empty-args-with-blank-lines", "{assert\nsuper,[[{\"k\":@'q'}]](p=[[{foo:10,local  \n  a=[]}[\"a b\"]]],q=assert null;local\n\n\ny=[[]],y=b;y):local y=[],foo={local y(q=\"é\")={},assert[],a:0},x(p=if{[@\"v\"\"w\"]:[]}then@\"p\")=[]>[]{};{},[(2)(\n\n)[:]/$]:y,foo:{[super]:local a()={a:5};null,foo:'t',assert function()[]:foo}}"),
	("break-in-earlier-group.args", "x(b,r=[\".libsonnet\",x in importbin\"f.libsonnet\"])([@'q'(p,q,r)[101e3],importbin\"f.libsonnet\"]{[\"\"]:''})"),
	("break-in-earlier-group.args", "x(b,[importbin\"f.libsonnet\"for x in importstr@\"p\"if importbin\"f.libsonnet\"])([@'q'==function()[]]{[\"a\\nb\"]:$,y:@'q'}())"),
	("break-in-earlier-group.array", "{[[[error\"a\\nb\"for y in{}for a in{}],\"a\\nb\",10(import\"f.libsonnet\")]]:[local a='t';c]for b in[{[5]:1}][y]}"),
	("group-spans-lines-after-all", "local x = [a, b] + \"aaaaaaaaaaaaaaaaaaaaaaaaaaaaaaaaaaaaaaaaaaaaaaaaaaaaaaaaaaaaaaaaaaaaaaaaaaaaaaaaaaaaaaaaaaaaaaaaaaaaaaaaaaaaaa\"; x"),
	("group-spans-lines-after-all", "local x = f(a) + \"aaaaaaaaaaaaaaaaaaaaaaaaaaaaaaaaaaaaaaaaaaaaaaaaaaaaaaaaaaaaaaaaaaaaaaaaaaaaaaaaaaaaaaaaaaaaaaaaaaaaaaaaaaaaaa\"; x"),
	("expanded-args-joined", "{a(p={assert function()local o='';\"\"},r={[{[{}]:b}]:{}}):([]),@\"v\":[[foo{[2. ]:::\"a\\nb\",[$]+:::0,b+:self,[null]:\"a\\nb\"},@'q',x[\"s\":]]for a in a(x)[3]]}"),
	("args-end-comments", "a(/* c */)"),
	("args-end-comments", "a()(\n\n// own line\n) tailstrict"),
	("args-end-comments", "f(a, // d\n b\n\n// c\n)"),
	("objcomp-end-comments", "{ [a]: 1 for b in c\n// own line\n}"),
	("objcomp-end-comments", "{ [a]: 1 for b in c\n\n# para\n\n}"),
	("slice-second-colon-comment", "y[:1:/* c */]"),
	("local-keyword-comment", "(local // c\na = 1; a)"),
	("local-keyword-comment", "(local # c\na = 1; a)"),
	("local-keyword-comment", "f(r = local/* a b */b ( )= { } ; 1)"),
	("local-keyword-comment", "local\n// own line\nfoo ( p\n)\t=\nfoo;\n10"),
	("blank-lines-in-brackets", "f(\n\n\n1)"),
	("blank-lines-in-brackets", "x(\n\n)[:[ ]]"),
	("blank-lines-in-brackets", "[\n\n]"),
];

fn bucket(n: usize) -> &'static str {
	match n {
		0 => "0",
		1..=3 => "1-3",
		4..=15 => "4-15",
		16..=63 => "16-63",
		64..=255 => "64-255",
		_ => "256+",
	}
}

fn random_bytes(rng: &mut Rng) -> String {
	let n = rng.below(24);
	let bytes: Vec<u8> = (0..n)
		.map(|_| {
			if rng.chance(3, 4) {
				// printable ASCII biased towards Jsonnet punctuation
				*rng.pick(b"{}[]():;,.=+-*/%!~<>&|^?$@#'\"\\ \n\t\rabcxyz0123456789_")
			} else {
				rng.below(256) as u8
			}
		})
		.collect();
	String::from_utf8_lossy(&bytes).to_string()
}

fn truncate_at(src: &str, at: usize) -> &str {
	let mut i = at.min(src.len());
	while !src.is_char_boundary(i) {
		i -= 1;
	}
	&src[..i]
}

pub fn run(opts: &Opts) {
	let mut rng = Rng::new(opts.seed);
	let mut c = Ctx { w: CaseWriter::new(&opts.out), hist: BTreeMap::new(), seen: Default::default() };
	let thorough = opts.thorough();
	let (n_bytes, n_soup, n_prog, n_mut) = if thorough { (6000, 12000, 2500, 8) } else { (1500, 3000, 500, 4) };

	// ---- fixed corpus: one minimal witness per repaired layout defect (always first) ----
	for (defect, src) in REPAIRED_WITNESSES {
		c.diag("witness", src);
		for indent in [0u8, 2, 4] {
			c.idem(&format!("witness.{defect}"), src, indent);
		}
	}
	// ---- boundary list ----
	for s in BOUNDARY {
		c.diag("boundary", s);
	}
	// ---- random byte strings ----
	for _ in 0..n_bytes {
		let s = random_bytes(&mut rng);
		c.diag("bytes", &s);
	}
	// ---- token soup ----
	for _ in 0..n_soup {
		let n = 1 + rng.below(9);
		let toks: Vec<String> = (0..n).map(|_| (*rng.pick(&VOCAB)).to_string()).collect();
		let s = layout(&mut rng, &toks, 1);
		c.diag("soup", &s);
	}
	// ---- valid programs, their mutations, fixed point ----
	let mut valid = 0u64;
	let mut programs: Vec<String> = Vec::new();
	for i in 0..n_prog {
		let depth = 1 + rng.below(4);
		let toks = gen_program(&mut rng, depth, i % 4 == 3);
		let style = i % 3;
		let src = layout(&mut rng, &toks, style);
		let out = c.diag(&format!("program.style{style}"), &src);
		if matches!(out, Out::Ok(_)) {
			valid += 1;
			for indent in [0u8, 2, 4] {
				c.idem(&format!("program.style{style}"), &src, indent);
			}
			if programs.len() < 64 {
				programs.push(src.clone());
			}
		}
		// mutations: drop / duplicate / replace a token, truncate the text
		for _ in 0..n_mut {
			let mut t = toks.clone();
			let k = rng.below(t.len());
			match rng.below(4) {
				0 => {
					t.remove(k);
				}
				1 => {
					let x = t[k].clone();
					t.insert(k, x);
				}
				2 => t[k] = (*rng.pick(&VOCAB)).to_string(),
				_ => t.truncate(k),
			}
			let m = layout(&mut rng, &t, 1);
			c.diag("mutant", &m);
			let cut = rng.below(src.len() + 1);
			c.diag("truncated", truncate_at(&src, cut));
		}
	}
	c.hist.insert("programs.valid".into(), valid);

	// ---- layout stress: the fixed-point clause only (no diagnostics model, no mutants) ----
	let n_stress = if thorough { 2400 } else { 800 };
	for i in 0..n_stress {
		// programs long enough to need more than one line
		let mut toks = Vec::new();
		for _ in 0..6 {
			let depth = 2 + rng.below(3);
			toks = gen_program(&mut rng, depth, i % 4 == 3);
			if toks.len() >= 24 {
				break;
			}
		}
		let (style, src) = match i % 5 {
			0 | 2 => ("line", layout(&mut rng, &toks, 0)),
			1 | 3 => ("sparse", layout_sparse(&mut rng, &toks)),
			_ => ("commented", layout_commented(&mut rng, &toks)),
		};
		let src = src.trim_end().to_string();
		for kind in 0..4usize {
			let pad = if kind == 0 { 0 } else { 1 + rng.below(70) };
			let text = wrap_program(kind, pad, &src);
			let indent = [0u8, 2, 4][(i + kind) % 3];
			match c.idem(&format!("stress.{style}.wrap{kind}"), &text, indent) {
				Some(once) => {
					c.bump(&format!("stress.{style}.valid"));
					c.bump(&format!("stress.widest-line.{}", width_bucket(&once)));
				}
				None => {
					// a syntax error of the generated text (a first-pass panic has been recorded by `idem`)
					c.bump(&format!("stress.{style}.rejected"));
					if kind == 0 {
						break;
					}
				}
			}
		}
	}

	// ---- tokens that span lines or contain tabs, at nesting depth 0..=3, every indent setting ----
	// (own PRNG stream: the corpora above stay what they were for a given seed)
	{
		let mut srng = Rng::new(opts.seed ^ 0x5_BA11);
		for sp in spanning_programs(&mut srng, if thorough { 3000 } else { 300 }) {
			let kind = sp.label.split('.').next().unwrap_or("?").to_string();
			let mut valid = false;
			for indent in [0u8, 2, 4] {
				valid |= c.idem(&format!("span.{}.depth{}", sp.label, sp.depth), &sp.src, indent).is_some();
			}
			c.bump(&format!("span.{kind}.{}", if valid { "valid" } else { "rejected" }));
			c.bump(&format!("span.depth{}", sp.depth));
		}
		// every short comment text, one indent setting each (by turns)
		for (i, sp) in exhaustive_comment_programs(if thorough { 7 } else { 5 }).iter().enumerate() {
			let valid = c.idem(&format!("span.{}", sp.label), &sp.src, [0u8, 2, 4][i / 3 % 3]).is_some();
			c.bump(&format!("span.{}.{}", sp.label, if valid { "valid" } else { "rejected" }));
		}
	}

	// ---- the jrsonnet-fmt binary against FmtMain (Lean) ----
	if let Some(bin) = fmt_bin() {
		let mut inputs: Vec<String> = programs.iter().take(if thorough { 64 } else { 24 }).cloned().collect();
		for s in ["", "+1", "{", "local a = 1;", "{ a: 1 }", "{ a: 1 }\n", "{a:1}\n", "[1,\n2]", "  1  \n\n", "1", "1\n", "// c\n1\n",
			"local a = -1; !a", "{a: 1 for x in y if z}", "f(x) tailstrict"] {
			inputs.push(s.to_string());
		}
		for (k, src) in inputs.iter().enumerate() {
			// (indent, hard_tabs, conv_limit, test)
			let combos: [(u8, bool, usize, bool); 6] =
				[(2, false, 0, false), (4, false, 0, false), (0, false, 0, false), (2, true, 0, false), (2, false, 3, false), (2, false, 0, true)];
			for (ci, &(indent, hard, limit, test)) in combos.iter().enumerate() {
				if ci >= 2 && ci <= 4 && k % 3 != 0 {
					continue; // the rarer flag combinations on a third of the inputs
				}
				let out = c.main_case(&bin, &opts.out, "main", src, indent, hard, limit, test, None);
				// what plain jrsonnet-fmt printed must be accepted by --test, same settings
				if let (false, Some(y)) = (test, out) {
					c.main_case(&bin, &opts.out, "produce-then-test", &y, indent, hard, limit, true, Some(&y));
					if limit == 0 && k % 3 == 0 {
						c.main_case(&bin, &opts.out, "produce-then-test-conv", &y, indent, hard, 2, true, Some(&y));
					}
				}
			}
		}
		// ---- nesting depth (own process: stack exhaustion cannot be caught in-process) ----
		for n in [64usize, 200, 255, 256, 300, 3000] {
			for (open, close) in [("[", "]"), ("(", ")")] {
				let src = format!("{}1{}", open.repeat(n), close.repeat(n));
				let r = run_bin(&bin, &src, &[], &opts.out);
				let res = if r.code == Some(0) {
					"ok"
				} else if r.code == Some(1) {
					"diag"
				} else if r.code == Some(101) {
					"panic"
				} else {
					"abort"
				};
				c.bump(&format!("deep.{res}"));
				c.w.case(
					json!({"op":"fmt.deep","n":n,"open":open,"size":2*n+1}),
					json!({"res":res,"_msg":r.stderr_tail.chars().take(240).collect::<String>()}),
				);
			}
		}
	} else {
		c.bump("main.binary-missing");
	}

	let hist = c.hist.clone();
	let n = c.w.n;
	c.w.finish(
		json!({"engine":"c20","cases":n,"hist":hist,
			"rule":"format() guarded on boundary/bytes/token-soup/mutants/truncations (diagnostic-branch outcome vs Lean model); format∘format = format on generated valid programs × indent {tabs,2,4}, incl. the span stream (every enumerated shape of a string literal / block comment / line comment / text block that spans lines or contains tabs, CR, trailing blanks, at nesting depth 0..=3; comments glued behind and before every bracket kind and separator; every block comment text up to 5 (thorough: 7) characters over blank/tab/line break/`*`/`a`; no shape excluded); jrsonnet-fmt binary vs FmtMain.run"}),
		&opts.out,
	);
}
