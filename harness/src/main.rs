//! jvh — correspondence harness: runs the real jrsonnet code in-process on generated cases and
//! writes (operation, implementation answer) pairs for the Lean driver to be compared with.
#![allow(dead_code)]
mod astjson;
mod common;
mod engines;

use std::path::PathBuf;

fn main() {
	let args: Vec<String> = std::env::args().collect();
	if args.len() < 2 {
		eprintln!("usage: jvh <engine> --tier quick|thorough --seed N --out DIR [--replay FILE]");
		std::process::exit(2);
	}
	let engine = args[1].clone();
	let mut opts = common::Opts {
		engine: engine.clone(),
		tier: "quick".into(),
		seed: 1,
		out: PathBuf::from("/verif/work/tmp"),
		replay: None,
	};
	let mut i = 2;
	while i < args.len() {
		match args[i].as_str() {
			"--tier" => {
				opts.tier = args[i + 1].clone();
				i += 1;
			}
			"--seed" => {
				opts.seed = args[i + 1].parse().unwrap_or(1);
				i += 1;
			}
			"--out" => {
				opts.out = PathBuf::from(&args[i + 1]);
				i += 1;
			}
			"--replay" => {
				opts.replay = Some(PathBuf::from(&args[i + 1]));
				i += 1;
			}
			_ => {}
		}
		i += 1;
	}
	if std::env::var_os("JVH_VERBOSE").is_none() {
		common::quiet_panics();
	}
	if !engines::run(&engine, &opts) {
		eprintln!("unknown engine {engine}");
		std::process::exit(2);
	}
}
