//! Serialises the real parser's IR (`jrsonnet_ir::Expr`, spans erased) to the JSON encoding the Lean
//! driver reads (`Drv/C01.lean: pExpr`).  Constructs outside the modelled fragment become
//! `["unsupported", what]`.
use jrsonnet_ir::{
	ArgsDesc, AssertStmt, BinaryOpType, BindSpec, CompSpec, Destruct, Expr, ExprParams, FieldMember,
	FieldName, LiteralType, ObjBody, UnaryOpType, Visibility,
};
use serde_json::{json, Value};

fn destruct_name(d: &Destruct) -> Option<String> {
	match d {
		Destruct::Full(n) => Some(n.to_string()),
		#[allow(unreachable_patterns)]
		_ => None,
	}
}

pub fn params(p: &ExprParams) -> Value {
	Value::Array(
		p.exprs
			.iter()
			.map(|p| {
				json!([
					destruct_name(&p.destruct).unwrap_or_else(|| "<destruct>".into()),
					p.default.as_ref().map_or(Value::Null, |d| expr(d))
				])
			})
			.collect(),
	)
}

fn bind(b: &BindSpec) -> Value {
	match b {
		BindSpec::Field { into, value } => match destruct_name(into) {
			Some(n) => json!(["bind", n, expr(value)]),
			None => json!(["unsupported", "destructuring bind"]),
		},
		BindSpec::Function { name, params: p, value } => {
			json!(["fn", name.to_string(), params(p), expr(value)])
		}
	}
}

fn spec(s: &CompSpec) -> Value {
	match s {
		CompSpec::IfSpec(i) => json!(["if", expr(&i.cond)]),
		CompSpec::ForSpec(f) => match destruct_name(&f.destruct) {
			Some(n) => json!(["for", n, expr(&f.over)]),
			None => json!(["unsupported", "destructuring for"]),
		},
	}
}

fn vis(v: Visibility) -> &'static str {
	match v {
		Visibility::Normal => "n",
		Visibility::Hidden => "h",
		Visibility::Unhide => "u",
	}
}

fn field(f: &FieldMember) -> Value {
	let name = match &f.name.value {
		FieldName::Fixed(s) => json!(["fixed", s.to_string()]),
		FieldName::Dyn(e) => json!(["dyn", expr(e)]),
	};
	json!([
		name,
		f.plus,
		f.params.as_ref().map_or(Value::Null, params),
		vis(f.visibility),
		expr(&f.value)
	])
}

fn assert_stmt(a: &AssertStmt) -> Value {
	json!([expr(&a.0), a.1.as_ref().map_or(Value::Null, |m| expr(m))])
}

fn body(b: &ObjBody) -> Value {
	match b {
		ObjBody::MemberList(m) => json!([
			"members",
			m.locals.iter().map(bind).collect::<Vec<_>>(),
			m.asserts.iter().map(assert_stmt).collect::<Vec<_>>(),
			m.fields.iter().map(field).collect::<Vec<_>>()
		]),
		ObjBody::ObjComp(c) => json!([
			"objcomp",
			c.locals.iter().map(bind).collect::<Vec<_>>(),
			field(&c.field),
			c.compspecs.iter().map(spec).collect::<Vec<_>>()
		]),
	}
}

fn args(a: &ArgsDesc) -> (Value, Value) {
	(
		Value::Array(a.unnamed.iter().map(|e| expr(e)).collect()),
		Value::Array(a.named.iter().map(|(n, e)| json!([n.to_string(), expr(e)])).collect()),
	)
}

pub fn unop(o: UnaryOpType) -> &'static str {
	match o {
		UnaryOpType::Plus => "+",
		UnaryOpType::Minus => "-",
		UnaryOpType::BitNot => "~",
		UnaryOpType::Not => "!",
	}
}

pub fn binop(o: BinaryOpType) -> String {
	format!("{o}")
}

pub fn expr(e: &Expr) -> Value {
	match e {
		Expr::Literal(l) => json!([match l {
			LiteralType::This => "self",
			LiteralType::Super => "super",
			LiteralType::Dollar => "$",
			LiteralType::Null => "null",
			LiteralType::True => "true",
			LiteralType::False => "false",
		}]),
		Expr::Str(s) => json!(["str", s.to_string()]),
		Expr::Num(n) => json!(["num", n.to_bits().to_string()]),
		Expr::Var(v) => json!(["var", v.value.to_string()]),
		Expr::Arr(es) => json!(["arr", es.iter().map(expr).collect::<Vec<_>>()]),
		Expr::ArrComp(b, specs) => json!(["arrcomp", expr(b), specs.iter().map(spec).collect::<Vec<_>>()]),
		Expr::Obj(b) => json!(["obj", body(b)]),
		Expr::ObjExtend(e, b) => json!(["objext", expr(e), body(b)]),
		Expr::UnaryOp(o, e) => json!(["unary", unop(*o), expr(e)]),
		Expr::BinaryOp(b) => json!(["binary", binop(b.op), expr(&b.lhs), expr(&b.rhs)]),
		Expr::AssertExpr(a) => json!([
			"assert",
			expr(&a.assert.0),
			a.assert.1.as_ref().map_or(Value::Null, |m| expr(m)),
			expr(&a.rest)
		]),
		Expr::LocalExpr(bs, b) => json!(["local", bs.iter().map(bind).collect::<Vec<_>>(), expr(b)]),
		Expr::Import(..) => json!(["unsupported", "import"]),
		Expr::ErrorStmt(_, e) => json!(["error", expr(e)]),
		Expr::Apply(f, a, ts) => {
			let (p, n) = args(&a.value);
			json!(["apply", expr(f), p, n, ts])
		}
		Expr::Index { indexable, parts } => {
			json!(["index", expr(indexable), parts.iter().map(|p| expr(&p.value)).collect::<Vec<_>>()])
		}
		Expr::Function(p, b) => json!(["func", params(p), expr(b)]),
		Expr::IfElse(i) => json!([
			"if",
			expr(&i.cond.cond),
			expr(&i.cond_then),
			i.cond_else.as_ref().map_or(Value::Null, expr)
		]),
		Expr::Slice(s) => {
			let o = |e: &Option<jrsonnet_ir::Spanned<Expr>>| e.as_ref().map_or(Value::Null, |e| expr(&e.value));
			json!(["slice", expr(&s.value), o(&s.slice.start), o(&s.slice.end), o(&s.slice.step)])
		}
	}
}
