//! Shared harness utilities: seeded PRNG, panic capture, evaluator helpers, case output.
use std::{
	fs::File,
	io::{BufWriter, Write},
	panic::{catch_unwind, AssertUnwindSafe},
	path::{Path, PathBuf},
};

use jrsonnet_evaluator::{
	error::ErrorKind, trace::PathResolver, FileImportResolver, Result as JrResult, State, Val,
};
use serde_json::{json, Value};

/// splitmix64 — every random choice in the harness derives from one state.
pub struct Rng(pub u64);
impl Rng {
	pub fn new(seed: u64) -> Self {
		Self(seed ^ 0x9E37_79B9_7F4A_7C15)
	}
	pub fn next(&mut self) -> u64 {
		self.0 = self.0.wrapping_add(0x9E37_79B9_7F4A_7C15);
		let mut z = self.0;
		z = (z ^ (z >> 30)).wrapping_mul(0xBF58_476D_1CE4_E5B9);
		z = (z ^ (z >> 27)).wrapping_mul(0x94D0_49BB_1331_11EB);
		z ^ (z >> 31)
	}
	pub fn below(&mut self, n: usize) -> usize {
		if n == 0 {
			0
		} else {
			(self.next() % n as u64) as usize
		}
	}
	pub fn range(&mut self, lo: i64, hi: i64) -> i64 {
		lo + (self.next() % ((hi - lo + 1) as u64)) as i64
	}
	pub fn chance(&mut self, num: usize, den: usize) -> bool {
		self.below(den) < num
	}
	pub fn pick<'a, T>(&mut self, xs: &'a [T]) -> &'a T {
		&xs[self.below(xs.len())]
	}
}

pub struct Opts {
	pub engine: String,
	pub tier: String,
	pub seed: u64,
	pub out: PathBuf,
	pub replay: Option<PathBuf>,
}
impl Opts {
	pub fn thorough(&self) -> bool {
		self.tier == "thorough"
	}
}

/// Writes `in.jsonl` (operations for the Lean driver) and `impl.jsonl` (what the implementation
/// answered, in the same shape as the driver's "model"/"spec" answers).
pub struct CaseWriter {
	pub inp: BufWriter<File>,
	pub imp: BufWriter<File>,
	pub n: usize,
}
impl CaseWriter {
	pub fn new(dir: &Path) -> Self {
		std::fs::create_dir_all(dir).expect("mkdir out");
		Self {
			inp: BufWriter::new(File::create(dir.join("in.jsonl")).expect("in.jsonl")),
			imp: BufWriter::new(File::create(dir.join("impl.jsonl")).expect("impl.jsonl")),
			n: 0,
		}
	}
	pub fn case(&mut self, op: Value, answer: Value) {
		writeln!(self.inp, "{op}").expect("write");
		writeln!(self.imp, "{answer}").expect("write");
		self.n += 1;
	}
	pub fn finish(mut self, meta: Value, dir: &Path) {
		self.inp.flush().expect("flush");
		self.imp.flush().expect("flush");
		std::fs::write(dir.join("meta.json"), meta.to_string()).expect("meta");
	}
}

/// Run `f`, mapping a Rust panic to `Err(message)`.
pub fn guarded<T>(f: impl FnOnce() -> T) -> Result<T, String> {
	catch_unwind(AssertUnwindSafe(f)).map_err(|e| {
		if let Some(s) = e.downcast_ref::<&str>() {
			(*s).to_string()
		} else if let Some(s) = e.downcast_ref::<String>() {
			s.clone()
		} else {
			"panic".to_string()
		}
	})
}

pub fn quiet_panics() {
	std::panic::set_hook(Box::new(|_| {}));
}

pub fn new_state() -> State {
	let mut s = State::builder();
	s.context_initializer(jrsonnet_stdlib::ContextInitializer::new(
		PathResolver::new_cwd_fallback(),
	))
	.import_resolver(FileImportResolver::default());
	s.build()
}

/// Small error-class enum (error *text* is only compared where a property is about text).
pub fn err_class(e: &jrsonnet_evaluator::Error) -> &'static str {
	use ErrorKind::*;
	match e.error() {
		ArrayBoundsError(..) | StringBoundsError(..) => "bounds",
		DivisionByZero => "div0",
		StackOverflow => "stack",
		InfiniteRecursionDetected => "infrec",
		NoSuchField(..) => "nofield",
		AssertionFailed(..) => "assert",
		RuntimeError(..) => "user",
		ImportSyntaxError { .. } => "syntax",
		TooManyArgsFunctionHas(..)
		| FunctionParameterNotBoundInCall(..)
		| UnknownFunctionParameter(..)
		| BindingParameterASecondTime(..) => "arity",
		TypeMismatch(..)
		| TypeError(..)
		| BinaryOperatorDoesNotOperateOnValues(..)
		| UnaryOperatorDoesNotOperateOnType(..)
		| ValueIndexMustBeTypeGot(..)
		| CantIndexInto(..)
		| ValueIsNotIndexable(..)
		| AttemptedIndexAnArrayWithString(..)
		| FractionalIndex => "type",
		ImportFileNotFound(..)
		| ResolvedFileNotFound(..)
		| ImportBadFileUtf8(..)
		| ImportIo(..)
		| ImportNotSupported(..)
		| ImportIsADirectory(..) => "import",
		_ => "other",
	}
}

/// Evaluate a snippet and manifest to minified JSON; classify errors; catch panics.
pub fn eval_json(s: &State, code: &str) -> Value {
	match guarded(|| -> JrResult<String> {
		let v = s.evaluate_snippet("<h>".to_owned(), code.to_owned())?;
		v.manifest(jrsonnet_evaluator::manifest::JsonFormat::minify())
	}) {
		Ok(Ok(text)) => match serde_json::from_str::<Value>(&text) {
			Ok(v) => json!({ "ok": v }),
			Err(_) => json!({ "badjson": text }),
		},
		Ok(Err(e)) => json!({ "err": err_class(&e), "msg": format!("{}", e.error()) }),
		Err(p) => json!({ "panic": p }),
	}
}

pub fn eval_val(s: &State, code: &str) -> Result<JrResult<Val>, String> {
	guarded(|| s.evaluate_snippet("<h>".to_owned(), code.to_owned()))
}
